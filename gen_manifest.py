#!/usr/bin/env python3
"""Regenerates MANIFEST.json from the table below (kept next to ./check's PROPS)."""
import json, os
HERE = os.path.dirname(os.path.abspath(__file__))

CHECKS = {
 "C08": ("differential simulation: generated protothread programs run stacklessly (header under test) and as stackful coroutines (independent reference header) in lock step under one seeded schedule of resumptions and environment changes",
         "Programs are generated from the PT_* grammar (effects, yields, waits, wait-untils with observable re-evaluation, if/else, bounded loops, exits/fails, spawned and called children to depth 3) from VERIF_SEED at every build and the same body text is compiled against include/librfn/protothreads.h and against a reference header that implements the macros over swapcontext coroutines; child-pointer arguments and conditions sometimes carry traced side effects (each must be evaluated exactly once) and children run under PT_CALL sometimes block up to 70001 times; the tape chooses the program, environment flips, spurious resumptions and re-initialisation after exit; after every invocation the returned state, the effects executed and all persistent variables must be equal.",
         "The reference header is the trusted base; the generator keeps to the property's scope (one blocking macro per line, none inside a switch, PT_CHILD_OK consulted before the next blocking point, PT_CALL only of children without environment-dependent waits)."),
 "C15": ("seeded character streams delivered three ways (console_process; console_eval from a second fibre under the real scheduler; console_putchar from simulated interrupts/threads with ring overflow) against a reference line editor, tokeniser and dispatcher; ASan exact-size console, bounds monitor",
         "Seeded exploration of registration orders and counts (0-35 commands, beyond the table capacity) and of character streams (clean and messy lines, quotes, backspace, Ctrl-C, lines padded to 76-82 characters, yielding/sleeping/failing commands with input arriving meanwhile) through all three delivery paths; what each command saw (argc, argv copies, pointer containment in the line buffer) and the unknown-command output are compared with a reference editor/tokeniser applied to exactly the characters that entered the ring; eval injections must complete and execute each line once, also while a second console instance is being fed by its own injecting fibre.",
         "Lines beginning with white space or a quote, empty quotes, unterminated quotes and text glued to quotes are judged for safety, containment and dispatch only (the statement does not define their arguments); the character arriving when 79 are held is always followed by a junk line so both readings of its fate agree."),
 "C06": ("deterministic simulation of the fibre scheduler under a discrete-event main loop with interrupt-context calls injected between any two atomic operations or library data accesses (nested to depth 2) and from free-running sender contexts; obligation, exactly-once, ordering and queue-health oracles after a fault-free run to quiescence",
         "Seeded search over placements of up to 24 interrupt-context calls (fibre_run_atomic, fibre_eventq_claim/send, including back-to-back bursts that fill the 8-deep wake-up queue) inside fibre_scheduler_next, fibre_run, fibre_kill, the drain loop, fibre bodies and other handlers, and over thread schedules of 1-3 senders; every accepted wake-up becomes an obligation that a later dispatch must discharge unless a kill withdraws or overlaps it, dispatches never exceed reasons, accepted events arrive exactly once, intact and in real-time order, the system must quiesce within 64 passes and the queues must then dispatch a known run order exactly.",
         "Preemption points are atomic operations, library accesses to its own data, accesses to event storage and explicit points in bodies and the main loop; sequentially consistent interleavings; the POSIX main loop is replaced by a discrete-event loop of the same shape."),
 "C07": ("happens-before (vector-clock) race detection over seeded thread schedules of the real code, with edges derived from the memory-order argument of every atomic operation actually executed (own runtime behind clang's TSan instrumentation)",
         "The thread-mode runs of the ring, message-queue and fibre wake-up/event harnesses are executed with a vector-clock race detector: release stores replace, relaxed stores clear and release RMWs join a per-location release clock; acquire loads/RMWs join it into the reader; fences and release sequences are modelled; every plain access by library code to shared regions and to its own data, and every harness payload access, is checked against conflicting accesses of other contexts. Weakened orders (relaxed publish/observe/release/claim) are flagged on sequentially consistent schedules; correct acquire/release weakening is not.",
         "Interleavings are sequentially consistent, so non-SC behaviour of race-free but weakened code is out of reach (DESIGN.md section 7); long real-thread runs under the real ThreadSanitizer are observation of uncontrolled executions and are deliberately not part of this technique."),
 "C04": ("deterministic simulation: librfn compiled with TSan instrumentation against an own runtime; sender/receiver contexts preempted at every atomic operation and payload access under seeded random/PCT/k-preemption/stall schedules and nested interrupts; ownership automaton, claim-order and interval oracles",
         "Seeded search over interleavings at atomic-operation granularity of 1-4 senders (claim, write, send) and one receiver (receive, check, release) for queue depths 1-32 with the queue full most of the time, both as free-running threads under four scheduling strategies and as run-to-completion interrupt handlers nested to depth 2; an ownership automaton per buffer, exactly-once/intact/claim-order checks, an interval oracle for refusals (counting claims in progress) and conservation at quiescence decide every run.",
         "Interleavings are sequentially consistent (C07 covers the memory-order argument); preemption granularity is atomic operations, accesses to shared regions (including the bytes of the library's own memset/memcpy, wrapped at link time) and explicit points between API calls; long-lived queues (hundreds of messages) one run in 40; extra parts build the library with -DNDEBUG and with the fallback atomics of atomic.h; sampling, not enumeration."),
 "C05": ("deterministic simulation: TSan-instrumented ringbuf.c against an own runtime; producer and consumer preempted at every atomic operation and ring-storage access under seeded thread schedules and interrupts in either direction; FIFO, interval and bounds oracles",
         "Seeded search over interleavings of one producer (ringbuf_put, spinning ringbuf_putchar) and one consumer (ringbuf_get, ringbuf_empty) for ring lengths 2-17, 64, 255, 256, 4096 with pre-rotated indices: free-running threads under four strategies and interrupt-style run-to-completion preemption in both directions; byte-exact FIFO equality, interval oracles for refused puts and empty reports, and a bounds monitor over every plain access the ring code makes decide every run.",
         "Sequentially consistent interleavings; ringbuf_putchar is only used where its documented deadlock cannot arise (threads with a consumer that keeps consuming)."),
 "C01": ("seeded scheduler histories (outside calls and scripted protothread fibres) in lock step with a reference scheduler; library restart by data-segment restore; tape shrinking and exact replay",
         "Seeded exploration of histories of fibre_run / fibre_run_atomic / fibre_kill / fibre_scheduler_next(t) issued from outside and from inside 1-6 real protothread fibres that return yielded/waiting/exited/failed, with kill, spurious-run, queue-full and clock-stall faults, followed by a fault-free flush to quiescence; which fibre each pass dispatches, start-versus-resume, fibre_self and every return value are compared with a reference scheduler written from the statement (no fast path).",
         "Part 1 (h_fibre) is sequential histories: interrupt-context requests arrive between API calls; up to 10 fibres; where the statement leaves two readings open (fibre_timeout by an already queued fibre; the answer to a 9th undrained request) the reference forks or follows the library. Part 2 (h_irq, sim flavour) places the requests inside the scheduler's calls (interrupts nested to depth 2, sender threads) and reports lost, extra and mis-ordered dispatches under this property."),
 "C02": ("seeded timer-heavy scheduler histories on a simulated 32-bit cyclic clock placed at the wrap points; reference timer model plus translation-invariance re-execution",
         "Same harness and reference scheduler as C01 with a timer-heavy swarm: due times at <=0, 1, ties and up to 2^30 ahead; the simulated clock stalls, single-steps, lands exactly on, one short of and far beyond due times, and its base is placed by the tape at 0, 2^31-k, 2^32-k or anywhere; every third history is executed a second time with the time base translated and the two dispatch logs must be identical, which checks wrap-safety without trusting the model.",
         "Scope of the property is enforced by the generator: all pending due times within 2^31 ticks after the current time. A second part (h_irq, sim flavour) lets timeouts fall due in passes that are interrupted between their two drains of the wake-up queue."),
 "C03": ("seeded scheduler histories checking every returned wake-up time against the reference scheduler state; discrete-event flush that sleeps exactly as told",
         "Every value returned by fibre_scheduler_next in the C01/C02-style histories (both swarms) is compared with the reference: t if anything is runnable on return (run queue, the fibre that just yielded, an accepted undrained atomic request), else the earliest pending due time, else t+FIBRE_UNBOUNDED_SLEEP; the closing flush sleeps exactly until the returned time and every owed dispatch must still happen.",
         "Part (c) runs the real POSIX main loop (posix/fibre_posix.c) on the simulated clock with time_now() and a link-time wrapped usleep() as seams and judges every decision to sleep against the pending timeouts and runnable fibres. Part (a) is sequential histories (h_fibre); part (b) (h_irq, sim flavour) places interrupts inside fibre_scheduler_next and, whenever the scheduler says sleep, re-runs a pass at the same instant with interrupts held off: a dispatch there is excused only by a request published after the scheduler's last look at the wake-up queue, and no known pending timeout may lie before the returned time."),
 "C10": ("seeded (geometry, history) pairs against a bounded-FIFO reference model; both construction routes in lock step; ASan exact-size storage",
         "Seeded exploration over queue depth 1..32 (weight on 1, 2, 31, 32), message size 1..40 (one run in 40: 255..65535), slack bytes and construction route (messageq_init, MESSAGEQ_VAR_INIT with run-time values or expression arguments, or both in lock step) with histories of claim, reordered send, receive, delayed release and empty, 10-2400 operations long and one run in 300 extended by up to 131100 checked plain cycles (16-bit counters wrap); every pointer/NULL result is compared with a cyclic-counter/FIFO model and slack bytes are checked after every operation.",
         "Sequential histories only (concurrency is C04); releases follow receives and sends name claimed buffers (the API's rules)."),
 "C14": ("seeded stream-fault injection (truncation, hostile size fields, bit flips, noise) into reference headers; independent 64-bit chunk walker plus prefix/incremental-reader self-consistency oracles; ASan exact-size buffers",
         "Seeded exploration of byte streams: well-formed headers from a reference writer (fmt extensions up to 65535 bytes) subjected to tape-chosen fault sequences (hostile sizes, field extremes, bit flips, magic corruption, foreign chunk ids from a dictionary, tails up to 1 MiB, truncation), and pure noise, each decoded from an exact-size heap block; accepted lengths must be at least the minimum, equal the structural length of consistent headers, be exact, and every proper prefix of an accepted header (all are tried) plus a chunked incremental reader must never succeed early; the three helper functions are run on every resulting structure with allocation failures injected.",
         "Which malformed inputs are rejected is not judged (the property does not prescribe it); the structural-length oracle applies only to headers the independent walker finds consistent."),
 "C09": ("seeded operation histories checked step by step against a vector reference model; tape shrinking and exact replay",
         "Seeded exploration of list operation histories (8 nodes - one run in 150: 1030-2400 nodes with a list prefilled to around 1024 entries or the whole pool - 3 lists, 3 iterators, up to 40 operations including NULL node arguments) with a vector-of-ids reference model compared after every operation: full traversal, every return value, iterator positions, cleared links. History-only: this property has no fault or schedule dimension and the evidence says so.",
         "Iterators are exercised only while valid by the property's scope (no mutation of their list through another path); ASan/UBSan and a step budget guard memory safety and termination."),
 "C12": ("seeded pack/unpack sequences with the buffer end injected at a chosen byte; byte-stream reference model; ASan exact-size buffers",
         "Seeded exploration of pack/unpack operation sequences in which the end of an exact-size heap buffer (the fault) is placed inside a tape-chosen operation at a tape-chosen byte, including exact fit, size 0, NULL pointers and one huge request; every call names the API function directly with counted argument expressions (each argument must be evaluated exactly once); buffer image, returned values, zero fill and both counters are compared with a byte-vector model with sticky overflow after every call.",
         "Only the implemented functions of pack.c can be exercised; total requested bytes stay below 2^31 (the property's scope)."),
 "C20": ("seeded log histories with counter-jump, allocation-failure and sink faults against a deque-of-256 model; brute-force 2^31 run in the thorough tier",
         "Seeded exploration of mlog/mlog_nice/mlog_clear/get_line/dump histories (formats with up to three arguments, including width and precision taken from the arguments, empty lines and lines of 60-100 characters) with message counts steered to the ring boundaries; the counter word is located in the library's data segment by behaviour and moved to just below its fold point so histories continue across the 2^31 wrap; the thorough tier additionally really logs 2^31 messages and compares the resulting library state with the shortcut.",
         "The counter jump assumes the log is a circular buffer indexed by the message count modulo 256 (validated by the brute-force run in the thorough tier; if the counter word cannot be located the jump is skipped and reported as a probe)."),
 "C19": ("seeded simulation of a shaft and noisy signal line; integer-position reference model checked after every sample; tape shrinking and exact replay",
         "Seeded exploration of encoder signal histories with line faults (bounce, repeated and missed samples, reversals, garbage, periodic patterns of 1-4 states repeated up to 2000 times) from start positions next to the 8-, 14- and 16-bit wrap points; every reading is compared with an unbounded integer model derived from the state sequence. Sampling, not enumeration.",
         "Model is the property statement (single-bit transition = +-1, latch at detent); the 'within one click' clause is enforced only on histories without two-bit jumps."),
}
NA = {
 "C11": "pure function of one tree shape: the temporary link rewriting is undone within the same call sequence and nothing can run in between; no schedule, clock, fault or history for a simulator to own (DESIGN.md section 5)",
 "C13": "pure function of (format, channels, rate, frames, prior struct bytes) and of one byte string; nothing to schedule or fault (DESIGN.md section 5)",
 "C16": "pure functions of one 32/64-bit word; the deciding technique is exhaustive enumeration or SMT, not simulation (DESIGN.md section 5)",
 "C17": "pure function of the 31-bit state word; exhaustive comparison with 64-bit arithmetic is enumeration, not simulation (DESIGN.md section 5)",
 "C18": "pure function of one byte array or one string; repeated hex_get_byte calls are a deterministic cursor over that single input (DESIGN.md section 5)",
}
PENDING = "claimed in DESIGN.md; its check is not registered in this commit yet (under construction)"

def main():
    checks = []
    for pid in sorted(CHECKS):
        tech, text, note = CHECKS[pid]
        checks.append(dict(
            property_id=pid,
            quick_cmd="./check %s --tier quick" % pid,
            thorough_cmd="./check %s --tier thorough" % pid,
            evidence_file="/verif/evidence/%s.json" % pid,
            replay_cmd_template="./check replay {path}",
            engine="librfn-dsim",
            level_claimed=dict(category="exploration", text=text, design_ref="DESIGN.md section 4 " + pid),
            level_note=note,
            technique=tech))
    allp = [json.loads(l)["id"] for l in open(os.path.join(HERE, "properties.jsonl"))]
    na = [dict(property_id=p, reason=NA.get(p, PENDING)) for p in allp if p not in CHECKS]
    m = dict(
        version=1,
        setup_cmd="./check setup",
        hooks=dict(guard="LIBRFN_VERIF",
                   enable="checks compile /repo/librfn/*.c with -DLIBRFN_VERIF; no code in /repo tests the guard (all seams are external: compiler instrumentation, link-time wrapping, platform functions)",
                   baseline_off_cmd="make -C /repo check",
                   source_commits=[],
                   add_only=True),
        engines=[dict(name="librfn-dsim", path="/verif/sim",
                      serves_properties=sorted(CHECKS),
                      kind_free_text="deterministic simulator: seeded choice tape, cooperative contexts preempted at instrumented atomic operations, simulated clock, fault injection, reference-model and happens-before oracles, tape shrinking, exact replay")],
        checks=checks,
        not_applicable=na,
        notes="All checks are seeded search (exploration). ./check replay <file> re-executes a minimised tape. known_findings.txt lists recorded and fixed defects.")
    with open(os.path.join(HERE, "MANIFEST.json"), "w") as f:
        json.dump(m, f, indent=1)
        f.write("\n")

if __name__ == "__main__":
    main()
