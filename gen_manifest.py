#!/usr/bin/env python3
"""Regenerates MANIFEST.json from the table below (kept next to ./check's PROPS)."""
import json, os
HERE = os.path.dirname(os.path.abspath(__file__))

CHECKS = {
 "C19": ("seeded simulation of a shaft and noisy signal line; integer-position reference model checked after every sample; tape shrinking and exact replay",
         "Seeded exploration of encoder signal histories with line faults (bounce, repeated and missed samples, reversals, garbage) from start positions next to the 8-, 14- and 16-bit wrap points; every reading is compared with an unbounded integer model derived from the state sequence. Sampling, not enumeration.",
         "Model is the property statement (single-bit transition = +-1, latch at detent); the 'within one click' clause is enforced only on histories without two-bit jumps."),
}
NA = {
}

def main():
    checks = []
    for pid in sorted(CHECKS):
        tech, text, note = CHECKS[pid]
        checks.append(dict(
            property_id=pid,
            quick_cmd="./check %s --tier quick" % pid,
            thorough_cmd="./check %s --tier thorough" % pid,
            evidence_file="/verif/evidence/%s.json" % pid,
            replay_cmd_template="./check replay {path}",
            engine="librfn-dsim",
            level_claimed=dict(category="exploration", text=text, design_ref="DESIGN.md section 4 " + pid),
            level_note=note,
            technique=tech))
    m = dict(
        version=1,
        setup_cmd="./check setup",
        hooks=dict(guard="LIBRFN_VERIF",
                   enable="checks compile /repo/librfn/*.c with -DLIBRFN_VERIF; no code in /repo tests the guard (all seams are external: compiler instrumentation, link-time wrapping, platform functions)",
                   baseline_off_cmd="make -C /repo check",
                   source_commits=[],
                   add_only=True),
        engines=[dict(name="librfn-dsim", path="/verif/sim",
                      serves_properties=sorted(CHECKS),
                      kind_free_text="deterministic simulator: seeded choice tape, cooperative contexts preempted at instrumented atomic operations, simulated clock, fault injection, reference-model and happens-before oracles, tape shrinking, exact replay")],
        checks=checks,
        not_applicable=[dict(property_id=k, reason=v) for k, v in sorted(NA.items())],
        notes="All checks are seeded search (exploration). ./check replay <file> re-executes a minimised tape. known_findings.txt lists recorded and fixed defects.")
    with open(os.path.join(HERE, "MANIFEST.json"), "w") as f:
        json.dump(m, f, indent=1)
        f.write("\n")

if __name__ == "__main__":
    main()
