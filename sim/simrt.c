/*
 * simrt.c - runtime behind the -fsanitize=thread instrumentation (sim flavour).
 *
 * Not instrumented itself.  Provides:
 *   - the __tsan_* entry points the instrumented librfn objects call;
 *   - cooperative contexts (ucontext coroutines) and nested "interrupts";
 *   - the schedulers (random / PCT / k-preemptions / stalls; planned interrupts);
 *   - a happens-before race detector driven by the memory-order argument of
 *     every atomic operation actually executed;
 *   - a bounds monitor for plain accesses made by library code.
 */
#define _GNU_SOURCE
#include "simrt.h"
#include "sim.h"

#include <dlfcn.h>
#include <link.h>
#include <stdio.h>
#include <stdlib.h>
#include <string.h>
#include <sys/mman.h>
#include <ucontext.h>

#define STACK_SZ (256 * 1024)
#define FAIR_BOUND 400

typedef uint32_t vc_t[SIMRT_MAXCTX];

typedef struct {
	ucontext_t uc;
	void (*fn)(void *);
	void *arg;
	int state;		/* 0 unused, 1 runnable, 2 done */
	vc_t vc;
	vc_t acq_pending;
	vc_t rel_fence;
	bool has_rel_fence;
	int prio;
	uint64_t stalled_until;
	char *stack;
} ctx_t;

static struct {
	bool active;
	int mode;
	ctx_t ctx[SIMRT_MAXCTX];
	int nctx, cur;
	bool in_run_all;
	uint64_t points;
	uint32_t switches;
	uint32_t since_switch;

	/* strategy */
	int strat;
	uint32_t sparam;
	uint64_t change_at[8];
	uint32_t change_target[8];
	int nchange;
	int low_prio;
	uint64_t strat_step;

	/* interrupts */
	void (*irq_handler)(int);
	int irq_max_depth, irq_depth;
	uint32_t irq_gap[32];
	uint32_t irq_planned, irq_fired;
	uint64_t irq_next_at;
	bool irq_masked;

	/* monitors */
	bool bounds, races, libdata_points;
	vc_t sc_fence;

	uintptr_t main_lo, main_hi;
} rt;

/* ------------------------------------------------------------------------ */
/* regions                                                                  */
/* ------------------------------------------------------------------------ */

#define MAXREG 48
static struct {
	uintptr_t lo, hi;
	int flags;
	const char *name;
} reg[MAXREG];
static int nreg;

void simrt_region_add(const void *p, size_t len, int flags, const char *name)
{
	if (nreg >= MAXREG) {
		fprintf(stderr, "simrt: too many regions\n");
		_Exit(2);
	}
	reg[nreg].lo = (uintptr_t)p;
	reg[nreg].hi = (uintptr_t)p + len;
	reg[nreg].flags = flags;
	reg[nreg].name = name;
	nreg++;
}

static int find_region(uintptr_t a, size_t sz)
{
	for (int i = 0; i < nreg; i++)
		if (a >= reg[i].lo && a + sz <= reg[i].hi)
			return i;
	return -1;
}

/* PT_LOAD segments of every loaded object: reads from these are never "out of bounds" */
static struct { uintptr_t lo, hi; } objseg[128];
static int nobjseg;

static int objseg_cb(struct dl_phdr_info *info, size_t size, void *arg)
{
	(void)size;
	(void)arg;
	for (int i = 0; i < info->dlpi_phnum && nobjseg < 128; i++) {
		const ElfW(Phdr) *ph = &info->dlpi_phdr[i];
		if (ph->p_type != PT_LOAD)
			continue;
		objseg[nobjseg].lo = info->dlpi_addr + ph->p_vaddr;
		objseg[nobjseg].hi = objseg[nobjseg].lo + ph->p_memsz;
		nobjseg++;
	}
	return 0;
}

static bool in_object(uintptr_t a, size_t sz)
{
	/* static TLS of the (only) host thread: glibc's ctype macros read a pointer from it */
	uintptr_t tp = (uintptr_t)__builtin_thread_pointer();
	if (a + sz <= tp + 4096 && a >= tp - 65536)
		return true;
	for (int i = 0; i < nobjseg; i++)
		if (a >= objseg[i].lo && a + sz <= objseg[i].hi)
			return true;
	return false;
}

static bool in_stack(uintptr_t a)
{
	if (a >= rt.main_lo && a < rt.main_hi)
		return true;
	for (int i = 1; i < SIMRT_MAXCTX; i++)
		if (rt.ctx[i].stack && a >= (uintptr_t)rt.ctx[i].stack &&
		    a < (uintptr_t)rt.ctx[i].stack + STACK_SZ)
			return true;
	return false;
}

/* ------------------------------------------------------------------------ */
/* vector clocks, shadow memory, sync objects                                */
/* ------------------------------------------------------------------------ */

static void vc_join(vc_t d, const vc_t s)
{
	for (int i = 0; i < SIMRT_MAXCTX; i++)
		if (s[i] > d[i])
			d[i] = s[i];
}

typedef struct {
	uintptr_t addr;
	uint32_t gen;
	uint8_t w_ctx, w_atomic, w_valid;
	uint32_t w_clk;
	uintptr_t w_pc;
	uint32_t r_clk[SIMRT_MAXCTX];
	uint8_t r_atomic;	/* bit per ctx */
	uintptr_t r_pc[SIMRT_MAXCTX];
} shadow_t;

#define SHADOW_CAP (1u << 15)
static shadow_t *shadow;
static uint32_t shadow_gen = 1, shadow_used;

static shadow_t *shadow_get(uintptr_t a)
{
	uint32_t h = (uint32_t)((a * 0x9e3779b97f4a7c15ull) >> 40) & (SHADOW_CAP - 1);
	for (;;) {
		shadow_t *s = &shadow[h];
		if (s->gen != shadow_gen) {
			if (shadow_used > SHADOW_CAP / 2)
				return NULL;	/* table full: stop tracking new bytes */
			memset(s, 0, sizeof(*s));
			s->gen = shadow_gen;
			s->addr = a;
			shadow_used++;
			return s;
		}
		if (s->addr == a)
			return s;
		h = (h + 1) & (SHADOW_CAP - 1);
	}
}

typedef struct {
	uintptr_t addr;
	uint32_t gen;
	vc_t rel;
} sync_t;
#define SYNC_CAP 1024
static sync_t syncs[SYNC_CAP];

static sync_t *sync_get(uintptr_t a)
{
	uint32_t h = (uint32_t)((a * 0x9e3779b97f4a7c15ull) >> 44) & (SYNC_CAP - 1);
	for (int n = 0; n < SYNC_CAP; n++) {
		sync_t *s = &syncs[h];
		if (s->gen != shadow_gen) {
			memset(s, 0, sizeof(*s));
			s->gen = shadow_gen;
			s->addr = a;
			return s;
		}
		if (s->addr == a)
			return s;
		h = (h + 1) & (SYNC_CAP - 1);
	}
	return NULL;
}

static const char *where_name(uintptr_t a)
{
	int r = find_region(a, 1);
	if (r >= 0)
		return reg[r].name;
	if (sim_in_lib_data((void *)a, 1))
		return "library-data";
	return "other";
}

static const char *pc_name(uintptr_t pc, char *buf, size_t n)
{
	Dl_info di;
	if (pc && dladdr((void *)pc, &di) && di.dli_sname)
		snprintf(buf, n, "%s+0x%lx", di.dli_sname, (unsigned long)(pc - (uintptr_t)di.dli_saddr));
	else
		snprintf(buf, n, "pc=%#lx", (unsigned long)pc);
	return buf;
}

static void report_race(const char *kind, uintptr_t a, int octx, uint32_t oclk, uintptr_t opc,
			uintptr_t pc) __attribute__((noreturn));
static void report_race(const char *kind, uintptr_t a, int octx, uint32_t oclk, uintptr_t opc,
			uintptr_t pc)
{
	char cls[96], b1[96], b2[96];
	snprintf(cls, sizeof(cls), "RACE:%s:%s", kind, where_name(a));
	int r = find_region(a, 1);
	sim_fail("C07", cls,
		 "data race on %s byte +%ld: context %d (%s, clock %u) and context %d (%s) are not ordered by happens-before (current context knows clock %u of the other)",
		 where_name(a), r >= 0 ? (long)(a - reg[r].lo) : 0L, octx, pc_name(opc, b1, sizeof(b1)), oclk,
		 rt.cur, pc_name(pc, b2, sizeof(b2)), rt.ctx[rt.cur].vc[octx]);
}

static void race_access(uintptr_t a, size_t sz, bool is_write, bool is_atomic, uintptr_t pc)
{
	int t = rt.cur;
	const uint32_t *C = rt.ctx[t].vc;
	for (size_t i = 0; i < sz; i++) {
		shadow_t *s = shadow_get(a + i);
		if (!s)
			return;
		/* against the last write */
		if (s->w_valid && s->w_ctx != t && !(is_atomic && s->w_atomic) &&
		    s->w_clk > C[s->w_ctx])
			report_race(is_write ? "w-w" : "w-r", a + i, s->w_ctx, s->w_clk, s->w_pc, pc);
		if (is_write) {
			for (int u = 0; u < SIMRT_MAXCTX; u++) {
				if (u == t || !s->r_clk[u])
					continue;
				if (is_atomic && (s->r_atomic & (1u << u)))
					continue;
				if (s->r_clk[u] > C[u])
					report_race("r-w", a + i, u, s->r_clk[u], s->r_pc[u], pc);
			}
			s->w_valid = 1;
			s->w_ctx = t;
			s->w_clk = C[t];
			s->w_atomic = is_atomic;
			s->w_pc = pc;
			memset(s->r_clk, 0, sizeof(s->r_clk));
			s->r_atomic = 0;
		} else {
			s->r_clk[t] = C[t];
			s->r_pc[t] = pc;
			if (is_atomic)
				s->r_atomic |= 1u << t;
			else
				s->r_atomic &= ~(1u << t);
		}
	}
}

/* ------------------------------------------------------------------------ */
/* contexts and scheduling                                                  */
/* ------------------------------------------------------------------------ */

int simrt_self(void) { return rt.cur; }
int simrt_current_mode(void) { return rt.mode; }
uint64_t simrt_points(void) { return rt.points; }
uint32_t simrt_switches(void) { return rt.switches; }
int simrt_irq_depth(void) { return rt.irq_depth; }
uint32_t simrt_irq_pending(void) { return rt.irq_planned - rt.irq_fired; }

void simrt_mode(int mode) { rt.mode = mode; }
void simrt_bounds(bool on) { rt.bounds = on; }
void simrt_races(bool on) { rt.races = on; }
void simrt_libdata_points(bool on) { rt.libdata_points = on; }
void simrt_irq_mask(bool m) { rt.irq_masked = m; }

void simrt_strategy(int strat, uint32_t param)
{
	rt.strat = strat;
	rt.sparam = param;
}

static void switch_to(int next)
{
	int prev = rt.cur;
	if (next == prev)
		return;
	rt.cur = next;
	rt.switches++;
	rt.since_switch = 0;
	swapcontext(&rt.ctx[prev].uc, &rt.ctx[next].uc);
}

static int runnable_list(int *out, bool honour_stall)
{
	int n = 0;
	for (int i = 1; i < rt.nctx; i++)
		if (rt.ctx[i].state == 1 && (!honour_stall || rt.ctx[i].stalled_until <= rt.points))
			out[n++] = i;
	if (!n && honour_stall)
		return runnable_list(out, false);
	return n;
}

static void schedule_after_exit(void) __attribute__((noreturn));
static void schedule_after_exit(void)
{
	int list[SIMRT_MAXCTX];
	int n = runnable_list(list, true);
	int next = 0;
	if (n == 1)
		next = list[0];
	else if (n > 1) {
		if (rt.strat == SIMRT_STRAT_PCT) {
			next = list[0];
			for (int i = 1; i < n; i++)
				if (rt.ctx[list[i]].prio > rt.ctx[next].prio)
					next = list[i];
		} else {
			next = list[sim_choose(n)];
		}
	}
	rt.cur = next;
	rt.switches++;
	rt.since_switch = 0;
	setcontext(&rt.ctx[next].uc);
	abort();
}

static void tramp(void)
{
	ctx_t *c = &rt.ctx[rt.cur];
	c->fn(c->arg);
	c->state = 2;
	schedule_after_exit();
}

int simrt_spawn(void (*fn)(void *), void *arg)
{
	if (rt.nctx >= SIMRT_MAXCTX) {
		fprintf(stderr, "simrt: too many contexts\n");
		_Exit(2);
	}
	int id = rt.nctx++;
	ctx_t *c = &rt.ctx[id];
	if (!c->stack) {
		c->stack = mmap(NULL, STACK_SZ, PROT_READ | PROT_WRITE, MAP_PRIVATE | MAP_ANONYMOUS, -1, 0);
		if (c->stack == MAP_FAILED)
			_Exit(2);
	}
	getcontext(&c->uc);
	c->uc.uc_stack.ss_sp = c->stack;
	c->uc.uc_stack.ss_size = STACK_SZ;
	c->uc.uc_link = NULL;
	makecontext(&c->uc, tramp, 0);
	c->fn = fn;
	c->arg = arg;
	c->state = 1;
	c->has_rel_fence = false;
	c->stalled_until = 0;
	memset(c->acq_pending, 0, sizeof(vc_t));
	memset(c->rel_fence, 0, sizeof(vc_t));
	/* creation is a happens-before edge */
	memcpy(c->vc, rt.ctx[rt.cur].vc, sizeof(vc_t));
	c->vc[id] = 1;
	rt.ctx[rt.cur].vc[rt.cur]++;
	return id;
}

void simrt_run_all(void)
{
	int list[SIMRT_MAXCTX];
	int n = runnable_list(list, false);
	if (!n)
		return;
	rt.in_run_all = true;
	rt.strat_step = 0;
	rt.nchange = 0;
	if (rt.strat == SIMRT_STRAT_PCT) {
		/* random priorities, d-1 priority change points */
		int pr[SIMRT_MAXCTX];
		for (int i = 0; i < n; i++)
			pr[i] = i + 100;
		for (int i = n - 1; i > 0; i--) {
			int j = sim_choose(i + 1);
			int tmp = pr[i];
			pr[i] = pr[j];
			pr[j] = tmp;
		}
		for (int i = 0; i < n; i++)
			rt.ctx[list[i]].prio = pr[i];
		rt.low_prio = 50;
		int d = rt.sparam ? rt.sparam : 2;
		for (int i = 0; i < d - 1 && i < 8; i++)
			rt.change_at[rt.nchange++] = 1 + sim_choose(400);
	} else if (rt.strat == SIMRT_STRAT_KPREEMPT) {
		int k = rt.sparam ? rt.sparam : 2;
		for (int i = 0; i < k && i < 8; i++) {
			rt.change_at[rt.nchange] = 1 + sim_choose(400);
			rt.change_target[rt.nchange++] = sim_choose(n);
		}
	}
	int first;
	if (rt.strat == SIMRT_STRAT_PCT) {
		first = list[0];
		for (int i = 1; i < n; i++)
			if (rt.ctx[list[i]].prio > rt.ctx[first].prio)
				first = list[i];
	} else {
		first = list[sim_choose(n)];
	}
	switch_to(first);
	/* back in main: everything finished (or the run was abandoned) */
	rt.in_run_all = false;
	for (int i = 1; i < rt.nctx; i++)
		vc_join(rt.ctx[0].vc, rt.ctx[i].vc);
	rt.ctx[0].vc[0]++;
	rt.nctx = 1;
}

static void fire_irq(void)
{
	uint32_t i = rt.irq_fired++;
	rt.irq_next_at = rt.points + 1 + (rt.irq_fired < rt.irq_planned ? rt.irq_gap[rt.irq_fired] : 0);
	rt.irq_depth++;
	rt.switches++;
	sim_ev("irq.enter", i, rt.irq_depth, (int64_t)rt.points);
	rt.irq_handler(rt.irq_depth);
	sim_ev("irq.leave", i, rt.irq_depth, 0);
	rt.irq_depth--;
}

static void sched_point(void)
{
	rt.points++;
	sim_step();
	if (rt.mode == SIMRT_IRQ) {
		while (rt.irq_handler && !rt.irq_masked && rt.irq_depth < rt.irq_max_depth &&
		       rt.irq_fired < rt.irq_planned && rt.points >= rt.irq_next_at)
			fire_irq();
		return;
	}
	if (rt.mode != SIMRT_THR || !rt.in_run_all || rt.cur == 0)
		return;

	int list[SIMRT_MAXCTX];
	int n = runnable_list(list, true);
	rt.strat_step++;
	rt.since_switch++;
	if (n <= 1 && (n == 0 || list[0] == rt.cur))
		return;
	int me = -1;
	for (int i = 0; i < n; i++)
		if (list[i] == rt.cur)
			me = i;
	int next = rt.cur;

	if (me < 0) {
		/* the current context is stalled: somebody else must run */
		next = list[n > 1 ? sim_choose(n) : 0];
	} else if (rt.since_switch > FAIR_BOUND) {
		next = list[(me + 1) % n];	/* fairness bound: a spinner cannot starve the others */
		if (rt.strat == SIMRT_STRAT_PCT)
			rt.ctx[rt.cur].prio = rt.low_prio--;	/* demote the hog, or it is picked again at once */
	} else {
		switch (rt.strat) {
		case SIMRT_STRAT_RANDOM:
		case SIMRT_STRAT_STALL: {
			uint32_t stay = rt.sparam ? rt.sparam : 3;
			uint32_t v = sim_choose(n + stay - 1);
			if (v != 0 && v < (uint32_t)n)
				next = list[(me + v) % n];
			if (rt.strat == SIMRT_STRAT_STALL && sim_chance(1, 24)) {
				rt.ctx[rt.cur].stalled_until = rt.points + 1 + sim_choose(300);
				if (next == rt.cur)
					next = list[(me + 1) % n];
			}
			break;
		}
		case SIMRT_STRAT_PCT:
			for (int i = 0; i < rt.nchange; i++)
				if (rt.change_at[i] == rt.strat_step)
					rt.ctx[rt.cur].prio = rt.low_prio--;
			for (int i = 0; i < n; i++)
				if (rt.ctx[list[i]].prio > rt.ctx[next].prio)
					next = list[i];
			break;
		case SIMRT_STRAT_KPREEMPT:
			for (int i = 0; i < rt.nchange; i++)
				if (rt.change_at[i] == rt.strat_step)
					next = list[(me + 1 + rt.change_target[i] % (n - 1)) % n];
			break;
		}
	}
	if (next != rt.cur)
		switch_to(next);
}

void simrt_point(void)
{
	if (rt.active)
		sched_point();
}

void simrt_spin_hint(void)
{
	if (!rt.active)
		return;
	rt.points++;
	sim_step();
	if (rt.mode == SIMRT_THR && rt.in_run_all && rt.cur != 0) {
		int list[SIMRT_MAXCTX];
		int n = runnable_list(list, false);
		int me = 0;
		for (int i = 0; i < n; i++)
			if (list[i] == rt.cur)
				me = i;
		if (n > 1) {
			if (rt.strat == SIMRT_STRAT_PCT) {
				/* deprioritise the spinner */
				rt.ctx[rt.cur].prio = rt.low_prio--;
				int next = list[0];
				for (int i = 0; i < n; i++)
					if (rt.ctx[list[i]].prio > rt.ctx[next].prio)
						next = list[i];
				switch_to(next);
			} else {
				switch_to(list[(me + 1 + (n > 2 ? sim_choose(n - 1) : 0)) % n]);
			}
		}
	} else if (rt.mode == SIMRT_IRQ) {
		sched_point();
	}
}

void simrt_irq_handler(void (*h)(int), int max_depth)
{
	rt.irq_handler = h;
	rt.irq_max_depth = max_depth;
}

void simrt_irq_plan(uint32_t n, uint32_t max_gap)
{
	if (n > 32)
		n = 32;
	rt.irq_planned = n;
	rt.irq_fired = 0;
	for (uint32_t i = 0; i < n; i++) {
		/* mostly small gaps (nesting, bursts), sometimes far apart */
		uint32_t g = sim_choose(max_gap ? max_gap : 1);
		rt.irq_gap[i] = g;
	}
	rt.irq_next_at = rt.points + 1 + (n ? rt.irq_gap[0] : 0);
}

/* from now on the planned interrupts that have not fired yet come densely (gaps below max_gap) */
void simrt_irq_densify(uint32_t max_gap)
{
	for (uint32_t i = rt.irq_fired; i < rt.irq_planned; i++)
		rt.irq_gap[i] = sim_choose(max_gap ? max_gap : 1);
	if (rt.irq_fired < rt.irq_planned)
		rt.irq_next_at = rt.points + 1 + rt.irq_gap[rt.irq_fired];
}

void simrt_irq_set_gap(uint32_t i, uint32_t gap)
{
	if (i < 32) {
		rt.irq_gap[i] = gap;
		if (i == 0 && rt.irq_fired == 0)
			rt.irq_next_at = rt.points + 1 + gap;
	}
}

/* ------------------------------------------------------------------------ */
/* atomic log                                                               */
/* ------------------------------------------------------------------------ */

#define ALOG_CAP 8192
static simrt_alog_t alog[ALOG_CAP];
static uint32_t alog_n;

uint32_t simrt_alog_len(void) { return alog_n; }
const simrt_alog_t *simrt_alog(uint32_t i) { return i < alog_n ? &alog[i] : NULL; }

/* counts of RMW operations on one watched address, per context and interrupt depth (an oracle
 * or environment model can follow e.g. the releases of a queue without naming any symbol) */
static uintptr_t watch_addr;
static uint32_t watch_cnt[SIMRT_MAXCTX][4];

void simrt_watch_addr(uintptr_t a)
{
	watch_addr = a;
	memset(watch_cnt, 0, sizeof(watch_cnt));
}

uint32_t simrt_watch_count(int ctx, int depth)
{
	return watch_cnt[ctx & (SIMRT_MAXCTX - 1)][depth & 3];
}

/* "which address did the first RMW of this call target?" - independent of the log's capacity */
static uintptr_t first_rmw;
static int first_rmw_ctx = -1;

void simrt_mark_rmw(void)
{
	first_rmw = 0;
	first_rmw_ctx = rt.cur;
}

uintptr_t simrt_first_rmw(void)
{
	first_rmw_ctx = -1;
	return first_rmw;
}

static void alog_add(uintptr_t a, int kind, int mo)
{
	if (first_rmw_ctx == rt.cur && !first_rmw && (kind == 2 || kind == 3))
		first_rmw = a;
	if (watch_addr && a == watch_addr && (kind == 2 || kind == 3))
		watch_cnt[rt.cur & (SIMRT_MAXCTX - 1)][rt.irq_depth & 3]++;
	if (alog_n < ALOG_CAP) {
		alog[alog_n].seq = rt.points;
		alog[alog_n].addr = a;
		alog[alog_n].ctx = rt.cur;
		alog[alog_n].depth = rt.irq_depth;
		alog[alog_n].kind = kind;
		alog[alog_n].mo = mo;
		alog_n++;
	}
}

/* ------------------------------------------------------------------------ */
/* run begin / end (called by sim.c)                                        */
/* ------------------------------------------------------------------------ */

void simrt_run_begin(void)
{
	if (!shadow) {
		shadow = calloc(SHADOW_CAP, sizeof(shadow_t));
		uintptr_t sp = (uintptr_t)__builtin_frame_address(0);
		rt.main_hi = sp + (1u << 20);
		rt.main_lo = sp - (8u << 20);
		dl_iterate_phdr(objseg_cb, NULL);
	}
	shadow_gen++;
	shadow_used = 0;
	nreg = 0;
	alog_n = 0;
	watch_addr = 0;
	first_rmw_ctx = -1;
	rt.mode = SIMRT_SEQ;
	rt.nctx = 1;
	rt.cur = 0;
	rt.in_run_all = false;
	rt.points = 0;
	rt.switches = 0;
	rt.since_switch = 0;
	rt.strat = SIMRT_STRAT_RANDOM;
	rt.sparam = 0;
	rt.irq_handler = NULL;
	rt.irq_depth = 0;
	rt.irq_planned = rt.irq_fired = 0;
	rt.irq_masked = false;
	rt.bounds = false;
	rt.races = false;
	rt.libdata_points = false;
	memset(rt.sc_fence, 0, sizeof(vc_t));
	for (int i = 0; i < SIMRT_MAXCTX; i++) {
		rt.ctx[i].state = 0;
		memset(rt.ctx[i].vc, 0, sizeof(vc_t));
		memset(rt.ctx[i].acq_pending, 0, sizeof(vc_t));
		rt.ctx[i].has_rel_fence = false;
	}
	rt.ctx[0].state = 1;
	rt.ctx[0].vc[0] = 1;
	rt.active = true;
}

void simrt_run_end(void)
{
	rt.active = false;
	rt.cur = 0;
	rt.nctx = 1;
	rt.in_run_all = false;
	rt.irq_depth = 0;
}

/* ------------------------------------------------------------------------ */
/* plain accesses                                                           */
/* ------------------------------------------------------------------------ */

static inline void plain(uintptr_t a, size_t sz, bool is_write, uintptr_t pc)
{
	if (!rt.active)
		return;
	sim_step();
	if (in_stack(a))
		return;
	bool from_lib = sim_in_lib_text((void *)pc);
	int r = find_region(a, sz);
	bool libdata = r < 0 && sim_in_lib_data((void *)a, sz);
	if (from_lib && rt.bounds && r < 0 && !libdata) {
		if (is_write || !in_object(a, sz)) {
			char b[96];
			/* nearest region for the message */
			long off = 0;
			const char *nm = "no registered region";
			for (int i = 0; i < nreg; i++)
				if (a + 64 >= reg[i].lo && a < reg[i].hi + 64) {
					nm = reg[i].name;
					off = (long)(a - reg[i].lo);
				}
			sim_fail(NULL, is_write ? "OOB_ACCESS:write" : "OOB_ACCESS:read",
				 "library code (%s) %s %zu byte(s) outside every region it may touch (offset %ld relative to %s)",
				 pc_name(pc, b, sizeof(b)), is_write ? "wrote" : "read", sz, off, nm);
		}
	}
	bool shared = (r >= 0 && (reg[r].flags & SIMRT_SHARED)) || (libdata && from_lib);
	if (!shared)
		return;
	if (rt.races && rt.mode == SIMRT_THR)
		race_access(a, sz, is_write, false, pc);
	if ((r >= 0 && (reg[r].flags & SIMRT_SHARED)) || rt.libdata_points)
		sched_point();
}

#define PC ((uintptr_t)__builtin_return_address(0))

void __tsan_init(void) {}
void __tsan_func_entry(void *pc) { (void)pc; }
void __tsan_func_exit(void) {}
void __tsan_ignore_thread_begin(void) {}
void __tsan_ignore_thread_end(void) {}
void __tsan_vptr_update(void **p, void *v) { (void)p; (void)v; }
void __tsan_vptr_read(void **p) { (void)p; }

#define DEF_PLAIN(n)                                                                             \
	void __tsan_read##n(void *a) { plain((uintptr_t)a, n, false, PC); }                      \
	void __tsan_write##n(void *a) { plain((uintptr_t)a, n, true, PC); }                      \
	void __tsan_unaligned_read##n(void *a) { plain((uintptr_t)a, n, false, PC); }            \
	void __tsan_unaligned_write##n(void *a) { plain((uintptr_t)a, n, true, PC); }            \
	void __tsan_volatile_read##n(void *a) { plain((uintptr_t)a, n, false, PC); }             \
	void __tsan_volatile_write##n(void *a) { plain((uintptr_t)a, n, true, PC); }             \
	void __tsan_unaligned_volatile_read##n(void *a) { plain((uintptr_t)a, n, false, PC); }   \
	void __tsan_unaligned_volatile_write##n(void *a) { plain((uintptr_t)a, n, true, PC); }   \
	void __tsan_read_write##n(void *a) { plain((uintptr_t)a, n, true, PC); }                 \
	void __tsan_unaligned_read_write##n(void *a) { plain((uintptr_t)a, n, true, PC); }
DEF_PLAIN(1)
DEF_PLAIN(2)
DEF_PLAIN(4)
DEF_PLAIN(8)
DEF_PLAIN(16)

/*
 * librfn_sim.so is linked with --wrap=memset/memcpy/memmove: block operations the library
 * performs through libc (explicit calls and the ones the compiler generates) would otherwise be
 * invisible - no scheduling point inside them, no race-detector event, no bounds check.  They are
 * performed here byte by byte, each byte a plain access of the calling library code.
 */
/* a block that needs no per-byte treatment: nobody else can run (sequential phase) or the bytes
 * are not in a shared region.  One bounds check for the whole range is enough then. */
static bool block_is_simple(uintptr_t a, size_t n, bool is_write, uintptr_t pc)
{
	if (!rt.active || n == 0)
		return true;
	int r = find_region(a, n);
	bool shared = r >= 0 && (reg[r].flags & SIMRT_SHARED);
	bool concurrent = rt.mode == SIMRT_IRQ || (rt.mode == SIMRT_THR && rt.in_run_all);
	if (shared && concurrent)
		return false;
	if (r < 0 && !in_stack(a) && !sim_in_lib_data((void *)a, n) && n > 1) {
		/* not wholly inside one known area: let the per-byte path find the first bad byte */
		return false;
	}
	plain(a, n > 1 && r < 0 && !in_stack(a) ? 1 : n, is_write, pc);
	return true;
}

void *__wrap_memset(void *d, int c, size_t n)
{
	unsigned char *p = d;
	uintptr_t pc = PC;
	if (block_is_simple((uintptr_t)d, n, true, pc))
		return memset(d, c, n);
	for (size_t i = 0; i < n; i++) {
		plain((uintptr_t)(p + i), 1, true, pc);
		p[i] = (unsigned char)c;
	}
	return d;
}

void *__wrap_memcpy(void *d, const void *s, size_t n)
{
	unsigned char *p = d;
	const unsigned char *q = s;
	uintptr_t pc = PC;
	if (block_is_simple((uintptr_t)d, n, true, pc) && block_is_simple((uintptr_t)s, n, false, pc))
		return memcpy(d, s, n);
	for (size_t i = 0; i < n; i++) {
		plain((uintptr_t)(q + i), 1, false, pc);
		unsigned char v = q[i];
		plain((uintptr_t)(p + i), 1, true, pc);
		p[i] = v;
	}
	return d;
}

void *__wrap_memmove(void *d, const void *s, size_t n)
{
	unsigned char *p = d;
	const unsigned char *q = s;
	uintptr_t pc = PC;
	if (p <= q || p >= q + n)
		return __wrap_memcpy(d, s, n);
	for (size_t i = n; i-- > 0; ) {
		plain((uintptr_t)(q + i), 1, false, pc);
		unsigned char v = q[i];
		plain((uintptr_t)(p + i), 1, true, pc);
		p[i] = v;
	}
	return d;
}

void __tsan_read_range(void *a, unsigned long n) { plain((uintptr_t)a, n, false, PC); }
void __tsan_write_range(void *a, unsigned long n) { plain((uintptr_t)a, n, true, PC); }

/* ------------------------------------------------------------------------ */
/* atomics                                                                  */
/* ------------------------------------------------------------------------ */

enum { MO_RELAXED, MO_CONSUME, MO_ACQUIRE, MO_RELEASE, MO_ACQ_REL, MO_SEQ_CST };

static inline bool mo_acq(int mo) { return mo == MO_CONSUME || mo == MO_ACQUIRE || mo == MO_ACQ_REL || mo == MO_SEQ_CST; }
static inline bool mo_rel(int mo) { return mo == MO_RELEASE || mo == MO_ACQ_REL || mo == MO_SEQ_CST; }

/* kind: 0 load, 1 store, 2 rmw; called BEFORE the operation is performed, after the
 * scheduling point: the operation and its bookkeeping are one indivisible step */
static void atomic_hb(uintptr_t a, size_t sz, int kind, int mo, uintptr_t pc)
{
	if (!rt.races || rt.mode != SIMRT_THR)
		return;
	ctx_t *c = &rt.ctx[rt.cur];
	sync_t *s = sync_get(a);
	if (!s)
		return;
	race_access(a, sz, kind != 0, true, pc);
	if (kind == 0 || kind == 2) {
		if (mo_acq(mo))
			vc_join(c->vc, s->rel);
		else
			vc_join(c->acq_pending, s->rel);
	}
	if (kind == 1) {
		if (mo_rel(mo)) {
			memcpy(s->rel, c->vc, sizeof(vc_t));
			c->vc[rt.cur]++;
		} else if (c->has_rel_fence) {
			memcpy(s->rel, c->rel_fence, sizeof(vc_t));
		} else {
			memset(s->rel, 0, sizeof(vc_t));	/* a relaxed store ends the release sequence */
		}
	} else if (kind == 2) {
		if (mo_rel(mo)) {
			vc_join(s->rel, c->vc);
			c->vc[rt.cur]++;
		} else if (c->has_rel_fence) {
			vc_join(s->rel, c->rel_fence);
		}		/* relaxed RMW: continues the release sequence unchanged */
	}
}

static void fence_hb(int mo)
{
	if (!rt.races || rt.mode != SIMRT_THR)
		return;
	ctx_t *c = &rt.ctx[rt.cur];
	if (mo_acq(mo))
		vc_join(c->vc, c->acq_pending);
	if (mo == MO_SEQ_CST) {
		vc_join(c->vc, rt.sc_fence);
		vc_join(rt.sc_fence, c->vc);
	}
	if (mo_rel(mo)) {
		memcpy(c->rel_fence, c->vc, sizeof(vc_t));
		c->has_rel_fence = true;
		c->vc[rt.cur]++;
	}
}

#define ATOMIC_PROLOGUE(a, sz, kind, mo)                                                         \
	if (rt.active) {                                                                         \
		sched_point();                                                                   \
		alog_add((uintptr_t)(a), kind, mo);                                              \
		atomic_hb((uintptr_t)(a), sz, kind, mo, PC);                                     \
	}

#define DEF_ATOMIC(bits, T)                                                                      \
	T __tsan_atomic##bits##_load(const volatile T *a, int mo)                                \
	{                                                                                        \
		ATOMIC_PROLOGUE(a, sizeof(T), 0, mo);                                            \
		return *a;                                                                       \
	}                                                                                        \
	void __tsan_atomic##bits##_store(volatile T *a, T v, int mo)                             \
	{                                                                                        \
		ATOMIC_PROLOGUE(a, sizeof(T), 1, mo);                                            \
		*a = v;                                                                          \
	}                                                                                        \
	T __tsan_atomic##bits##_exchange(volatile T *a, T v, int mo)                             \
	{                                                                                        \
		ATOMIC_PROLOGUE(a, sizeof(T), 2, mo);                                            \
		T o = *a; *a = v; return o;                                                      \
	}                                                                                        \
	T __tsan_atomic##bits##_fetch_add(volatile T *a, T v, int mo)                            \
	{                                                                                        \
		ATOMIC_PROLOGUE(a, sizeof(T), 2, mo);                                            \
		T o = *a; *a = (T)(o + v); return o;                                             \
	}                                                                                        \
	T __tsan_atomic##bits##_fetch_sub(volatile T *a, T v, int mo)                            \
	{                                                                                        \
		ATOMIC_PROLOGUE(a, sizeof(T), 2, mo);                                            \
		T o = *a; *a = (T)(o - v); return o;                                             \
	}                                                                                        \
	T __tsan_atomic##bits##_fetch_and(volatile T *a, T v, int mo)                            \
	{                                                                                        \
		ATOMIC_PROLOGUE(a, sizeof(T), 2, mo);                                            \
		T o = *a; *a = (T)(o & v); return o;                                             \
	}                                                                                        \
	T __tsan_atomic##bits##_fetch_or(volatile T *a, T v, int mo)                             \
	{                                                                                        \
		ATOMIC_PROLOGUE(a, sizeof(T), 2, mo);                                            \
		T o = *a; *a = (T)(o | v); return o;                                             \
	}                                                                                        \
	T __tsan_atomic##bits##_fetch_xor(volatile T *a, T v, int mo)                            \
	{                                                                                        \
		ATOMIC_PROLOGUE(a, sizeof(T), 2, mo);                                            \
		T o = *a; *a = (T)(o ^ v); return o;                                             \
	}                                                                                        \
	T __tsan_atomic##bits##_fetch_nand(volatile T *a, T v, int mo)                           \
	{                                                                                        \
		ATOMIC_PROLOGUE(a, sizeof(T), 2, mo);                                            \
		T o = *a; *a = (T) ~(o & v); return o;                                           \
	}                                                                                        \
	T __tsan_atomic##bits##_compare_exchange_val(volatile T *a, T c, T v, int mo, int fmo)   \
	{                                                                                        \
		if (rt.active) {                                                                 \
			sched_point();                                                           \
			bool ok = *a == c;                                                       \
			alog_add((uintptr_t)a, ok ? 3 : 4, ok ? mo : fmo);                       \
			atomic_hb((uintptr_t)a, sizeof(T), ok ? 2 : 0, ok ? mo : fmo, PC);       \
		}                                                                                \
		T o = *a;                                                                        \
		if (o == c)                                                                      \
			*a = v;                                                                  \
		return o;                                                                        \
	}                                                                                        \
	int __tsan_atomic##bits##_compare_exchange_strong(volatile T *a, T *c, T v, int mo, int fmo) \
	{                                                                                        \
		if (rt.active) {                                                                 \
			sched_point();                                                           \
			bool ok = *a == *c;                                                      \
			alog_add((uintptr_t)a, ok ? 3 : 4, ok ? mo : fmo);                       \
			atomic_hb((uintptr_t)a, sizeof(T), ok ? 2 : 0, ok ? mo : fmo, PC);       \
		}                                                                                \
		T o = *a;                                                                        \
		if (o == *c) {                                                                   \
			*a = v;                                                                  \
			return 1;                                                                \
		}                                                                                \
		*c = o;                                                                          \
		return 0;                                                                        \
	}                                                                                        \
	int __tsan_atomic##bits##_compare_exchange_weak(volatile T *a, T *c, T v, int mo, int fmo) \
	{                                                                                        \
		if (rt.active) {                                                                 \
			sched_point();                                                           \
			bool ok = *a == *c;                                                      \
			alog_add((uintptr_t)a, ok ? 3 : 4, ok ? mo : fmo);                       \
			atomic_hb((uintptr_t)a, sizeof(T), ok ? 2 : 0, ok ? mo : fmo, PC);       \
		}                                                                                \
		T o = *a;                                                                        \
		if (o == *c) {                                                                   \
			*a = v;                                                                  \
			return 1;                                                                \
		}                                                                                \
		*c = o;                                                                          \
		return 0;                                                                        \
	}

DEF_ATOMIC(8, uint8_t)
DEF_ATOMIC(16, uint16_t)
DEF_ATOMIC(32, uint32_t)
DEF_ATOMIC(64, uint64_t)

void __tsan_atomic_thread_fence(int mo)
{
	if (rt.active) {
		sched_point();
		alog_add(0, 5, mo);
		fence_hb(mo);
	}
}

void __tsan_atomic_signal_fence(int mo)
{
	/* compiler barrier only: creates no inter-thread edge; still a scheduling point */
	(void)mo;
	if (rt.active)
		sched_point();
}
