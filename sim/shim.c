/*
 * shim.c - tiny accessors compiled WITH -fsanitize=thread instrumentation and
 * linked into the harness executable.  Through them the harness's own accesses
 * to shared payload memory (message buffers, ring storage seen from outside)
 * become visible to the runtime: scheduling points and race-detector events.
 * Their PCs are outside librfn_sim.so, so the bounds monitor does not apply.
 */
#include "simrt.h"

uint8_t shim_load8(const volatile uint8_t *p) { return *p; }
void shim_store8(volatile uint8_t *p, uint8_t v) { *p = v; }

void shim_copy_in(volatile uint8_t *dst, const uint8_t *src, size_t n)
{
	for (size_t i = 0; i < n; i++)
		dst[i] = src[i];
}

void shim_copy_out(uint8_t *dst, const volatile uint8_t *src, size_t n)
{
	for (size_t i = 0; i < n; i++)
		dst[i] = src[i];
}

void *shim_load_ptr(void *volatile *p) { return *p; }
void shim_store_ptr(void *volatile *p, void *v) { *p = v; }
uint32_t shim_load32(const volatile uint32_t *p) { return *p; }
void shim_store32(volatile uint32_t *p, uint32_t v) { *p = v; }
