/*
 * simrt.h - runtime behind clang's -fsanitize=thread instrumentation
 * (sim flavour, DESIGN.md 2.1/2.4/2.7).  The librfn objects are compiled with
 * the TSan instrumentation but linked against THIS runtime, not libtsan:
 * every atomic operation and every plain access the library makes arrives
 * here, where it is a scheduling point, is performed, and is fed to the
 * happens-before race detector and the bounds monitor.
 */
#ifndef VERIF_SIMRT_H_
#define VERIF_SIMRT_H_

#include <stdbool.h>
#include <stddef.h>
#include <stdint.h>

#define SIMRT_MAXCTX 8

enum { SIMRT_SEQ, SIMRT_IRQ, SIMRT_THR };
enum { SIMRT_STRAT_RANDOM, SIMRT_STRAT_PCT, SIMRT_STRAT_KPREEMPT, SIMRT_STRAT_STALL, SIMRT_NSTRAT };

/* ---- mode and contexts --------------------------------------------------- */
void simrt_mode(int mode);
int simrt_current_mode(void);
int simrt_spawn(void (*fn)(void *), void *arg);	/* thr: new coroutine context, returns id >= 1 */
void simrt_run_all(void);			/* run spawned contexts to completion (join)    */
void simrt_strategy(int strat, uint32_t param);	/* thr: how the next context is chosen          */
int simrt_self(void);				/* 0 = main context                             */
void simrt_point(void);				/* explicit scheduling point                    */
void simrt_spin_hint(void);			/* "I cannot progress until somebody else runs" */
uint64_t simrt_points(void);			/* scheduling points so far in this run         */
uint32_t simrt_switches(void);			/* context switches / interrupts so far         */

/* ---- interrupts (irq mode) ------------------------------------------------ */
/* handler(depth) runs as a nested call to completion; depth 1 or 2 */
void simrt_irq_handler(void (*handler)(int depth), int max_depth);
/* plan n interrupts: the i-th fires gaps[i] eligible scheduling points after the (i-1)-th */
void simrt_irq_plan(uint32_t n, uint32_t max_gap);
void simrt_irq_set_gap(uint32_t i, uint32_t gap);	/* override one planned gap */
void simrt_irq_densify(uint32_t max_gap);		/* remaining planned interrupts arrive densely */
void simrt_irq_mask(bool masked);
uint32_t simrt_irq_pending(void);		/* planned interrupts not fired yet             */
int simrt_irq_depth(void);

/* ---- regions: caller memory the library is allowed to touch ---------------- */
#define SIMRT_SHARED 1		/* accesses are scheduling points and race-checked */
#define SIMRT_PRIVATE 0		/* bounds only                                     */
void simrt_region_add(const void *p, size_t len, int flags, const char *name);
void simrt_bounds(bool on);	/* every plain library access must be in stack/lib data/region */
void simrt_races(bool on);	/* happens-before detector (thr mode)                          */
void simrt_libdata_points(bool on);	/* library accesses to its own data are scheduling points */

/* ---- atomic-operation log (for oracles that need "the last check") ---------- */
typedef struct {
	uint64_t seq;		/* scheduling-point number */
	uintptr_t addr;
	uint8_t ctx, depth, kind, mo;	/* kind: 0 load 1 store 2 rmw 3 cas-ok 4 cas-fail 5 fence */
} simrt_alog_t;
void simrt_mark_rmw(void);			/* start looking for the calling context's next RMW */
uintptr_t simrt_first_rmw(void);		/* its address (0 = none yet); stops looking        */
void simrt_watch_addr(uintptr_t addr);		/* count RMW operations on this address ...      */
uint32_t simrt_watch_count(int ctx, int depth);	/* ... per context and interrupt depth            */
uint32_t simrt_alog_len(void);
const simrt_alog_t *simrt_alog(uint32_t i);

/* ---- shims compiled WITH the instrumentation (shim.c) ----------------------- */
struct messageq_s;
uint8_t shim_load8(const volatile uint8_t *p);
void shim_store8(volatile uint8_t *p, uint8_t v);
void shim_copy_in(volatile uint8_t *dst, const uint8_t *src, size_t n);	/* plain byte stores */
void shim_copy_out(uint8_t *dst, const volatile uint8_t *src, size_t n);	/* plain byte loads  */
void *shim_load_ptr(void *volatile *p);
void shim_store_ptr(void *volatile *p, void *v);
uint32_t shim_load32(const volatile uint32_t *p);
void shim_store32(volatile uint32_t *p, uint32_t v);

#endif
