/*
 * sim.c - deterministic simulator core: choice tape, event log, verdicts,
 * crash/hang capture, library restart, shrinking, replay files, workers.
 *
 * Compiled WITHOUT sanitizer instrumentation (it copies across ASan redzones
 * when it restores the library's data segment).
 */
#define _GNU_SOURCE
#include "sim.h"

#include <errno.h>
#include <fcntl.h>
#include <link.h>
#include <setjmp.h>
#include <signal.h>
#include <stdarg.h>
#include <stdlib.h>
#include <string.h>
#include <sys/mman.h>
#include <sys/time.h>
#include <sys/wait.h>
#include <time.h>
#include <unistd.h>

/* ------------------------------------------------------------------------ */
/* small helpers                                                            */
/* ------------------------------------------------------------------------ */

static uint64_t splitmix64(uint64_t *s)
{
	uint64_t z = (*s += 0x9e3779b97f4a7c15ull);
	z = (z ^ (z >> 30)) * 0xbf58476d1ce4e5b9ull;
	z = (z ^ (z >> 27)) * 0x94d049bb133111ebull;
	return z ^ (z >> 31);
}

static uint64_t mix2(uint64_t a, uint64_t b)
{
	uint64_t s = a * 0x9e3779b97f4a7c15ull + b;
	(void)splitmix64(&s);
	return splitmix64(&s);
}

static double now_s(void)
{
	struct timespec ts;
	clock_gettime(CLOCK_MONOTONIC, &ts);
	return ts.tv_sec + ts.tv_nsec * 1e-9;
}

static void die(const char *fmt, ...)
{
	va_list ap;
	va_start(ap, fmt);
	fprintf(stderr, "sim: internal error: ");
	vfprintf(stderr, fmt, ap);
	fprintf(stderr, "\n");
	va_end(ap);
	_exit(2);
}

/* growable text buffer */
typedef struct {
	char *p;
	size_t len, cap;
} tbuf_t;

static void tb_reserve(tbuf_t *b, size_t extra)
{
	if (b->len + extra + 1 > b->cap) {
		size_t ncap = b->cap ? b->cap * 2 : 4096;
		while (ncap < b->len + extra + 1)
			ncap *= 2;
		b->p = realloc(b->p, ncap);
		if (!b->p)
			die("out of memory");
		b->cap = ncap;
	}
}

static void tb_printf(tbuf_t *b, const char *fmt, ...)
{
	va_list ap, ap2;
	va_start(ap, fmt);
	va_copy(ap2, ap);
	int n = vsnprintf(NULL, 0, fmt, ap2);
	va_end(ap2);
	tb_reserve(b, n);
	vsnprintf(b->p + b->len, n + 1, fmt, ap);
	b->len += n;
	va_end(ap);
}

static void tb_reset(tbuf_t *b)
{
	b->len = 0;
	if (b->p)
		b->p[0] = 0;
}

/* JSON string escape into tbuf */
static void tb_json_str(tbuf_t *b, const char *s, size_t n)
{
	tb_printf(b, "\"");
	for (size_t i = 0; i < n; i++) {
		unsigned char c = s[i];
		if (c == '"' || c == '\\')
			tb_printf(b, "\\%c", c);
		else if (c == '\n')
			tb_printf(b, "\\n");
		else if (c < 0x20 || c >= 0x7f)
			tb_printf(b, "\\u%04x", c);
		else
			tb_printf(b, "%c", c);
	}
	tb_printf(b, "\"");
}

/* ------------------------------------------------------------------------ */
/* configuration                                                            */
/* ------------------------------------------------------------------------ */

static struct {
	char prop[16];
	bool thorough;
	uint64_t seed;
	unsigned worker, workers;
	uint64_t runs;
	const char *out;
	const char *replay_dir;
	const char *known;
	unsigned sample_mod;	/* keep run hashes with hash % sample_mod == 0 */
	bool trace;
	double max_wall;	/* safety net only */
	const char *variant;	/* library build variant ("" or "ndebug"), recorded in replay files */
} cfg = { .variant = "", .prop = "C00", .workers = 1, .sample_mod = 1, .replay_dir = "." };

const char *sim_prop(void) { return cfg.prop; }
bool sim_prop_is(const char *p) { return 0 == strcmp(cfg.prop, p); }
bool sim_thorough(void) { return cfg.thorough; }

/* ------------------------------------------------------------------------ */
/* tape                                                                     */
/* ------------------------------------------------------------------------ */

typedef struct {
	uint32_t *v;
	uint32_t n, cap;
	uint32_t *seg;		/* seg[i] = index in v where segment i starts */
	uint32_t nseg, segcap;
} tape_t;

/* optional mirror of the recorded tape in memory shared with a parent process, so that the
 * tape survives the death of the process that draws it (crashrun) */
static struct {
	uint32_t *p;		/* p[0] = nvals, p[1] = nsegs, then values..., segment starts from the end */
	uint32_t cap;
} mirror;

static void tape_push_val(tape_t *t, uint32_t x)
{
	if (t->n == t->cap) {
		t->cap = t->cap ? t->cap * 2 : 1024;
		t->v = realloc(t->v, t->cap * sizeof(uint32_t));
		if (!t->v)
			die("out of memory");
	}
	t->v[t->n++] = x;
}

static void tape_push_seg(tape_t *t)
{
	if (t->nseg == t->segcap) {
		t->segcap = t->segcap ? t->segcap * 2 : 256;
		t->seg = realloc(t->seg, t->segcap * sizeof(uint32_t));
		if (!t->seg)
			die("out of memory");
	}
	t->seg[t->nseg++] = t->n;
}

static void tape_clear(tape_t *t)
{
	t->n = 0;
	t->nseg = 0;
}

static void tape_copy(tape_t *d, const tape_t *s)
{
	tape_clear(d);
	for (uint32_t i = 0, sg = 0; i <= s->n; i++) {
		while (sg < s->nseg && s->seg[sg] == i) {
			tape_push_seg(d);
			sg++;
		}
		if (i < s->n)
			tape_push_val(d, s->v[i]);
	}
}

static uint32_t seg_end(const tape_t *t, uint32_t sg)
{
	return sg + 1 < t->nseg ? t->seg[sg + 1] : t->n;
}

/* ------------------------------------------------------------------------ */
/* per-run state                                                            */
/* ------------------------------------------------------------------------ */

enum { OUT_OK, OUT_VIOLATION, OUT_DISCARD };

static struct {
	/* choice stream */
	bool replay;
	uint64_t rng;
	tape_t rec;		/* what was drawn (record) / consumed (replay)  */
	const tape_t *src;	/* replay source                                  */
	uint32_t src_seg;	/* current segment in src                         */
	uint32_t src_pos;	/* next value in src                              */
	bool src_done;

	/* event log */
	uint64_t hash;
	uint64_t events;
	bool tracing;
	tbuf_t trace;

	/* outcome */
	int outcome;
	char cls[160];
	char msg[512];

	/* reach */
	uint32_t faults[SIM_MAX_FAULTS];
	uint32_t probes[SIM_MAX_PROBES];
	uint64_t ops;
	uint64_t ticks;

	/* budget */
	uint64_t budget;
	bool budget_armed;

	volatile int sanitizer_hit;
	char sanitizer_kind[96];

	uint64_t index;
	bool active;
} R;

static sigjmp_buf run_jmp;

uint64_t sim_run_index(void) { return R.index; }
bool sim_replaying(void) { return R.replay; }
bool sim_tracing(void) { return R.tracing; }
uint64_t sim_event_no(void) { return R.events; }

static void mirror_val(uint32_t v)
{
	if (mirror.p && mirror.p[0] + mirror.p[1] + 4 < mirror.cap) {
		mirror.p[2 + mirror.p[0]] = v;
		__atomic_store_n(&mirror.p[0], mirror.p[0] + 1, __ATOMIC_RELEASE);
	}
}

static void mirror_seg(void)
{
	if (mirror.p && mirror.p[0] + mirror.p[1] + 4 < mirror.cap) {
		mirror.p[mirror.cap - 1 - mirror.p[1]] = mirror.p[0];
		__atomic_store_n(&mirror.p[1], mirror.p[1] + 1, __ATOMIC_RELEASE);
	}
}

uint32_t sim_choose(uint32_t n)
{
	uint32_t v;
	if (n <= 1)
		n = 1;
	if (!R.replay) {
		v = (uint32_t)(splitmix64(&R.rng) >> 16) % n;
	} else {
		const tape_t *t = R.src;
		uint32_t end = R.src_seg < t->nseg ? seg_end(t, R.src_seg) : 0;
		if (!R.src_done && R.src_seg < t->nseg && R.src_pos < end)
			v = t->v[R.src_pos++] % n;
		else
			v = 0;
	}
	tape_push_val(&R.rec, v);
	mirror_val(v);
	return v;
}

uint32_t sim_range(uint32_t lo, uint32_t hi)
{
	return lo + sim_choose(hi - lo + 1);
}

bool sim_chance(uint32_t num, uint32_t den)
{
	uint32_t v = sim_choose(den);
	return v != 0 && v <= num;
}

uint32_t sim_bits32(void)
{
	uint32_t lo = sim_choose(0x10000);
	uint32_t hi = sim_choose(0x10000);
	return (hi << 16) | lo;
}

/* segment 0 (the run's header) is opened automatically by run_begin() */
void sim_seg(void)
{
	tape_push_seg(&R.rec);
	mirror_seg();
	if (R.replay) {
		const tape_t *t = R.src;
		R.src_seg++;
		if (R.src_seg < t->nseg)
			R.src_pos = t->seg[R.src_seg];
		else
			R.src_done = true;
	}
}

bool sim_tape_done(void)
{
	if (!R.replay)
		return false;
	if (R.src_done)
		return true;
	/* last segment and all of it consumed */
	const tape_t *t = R.src;
	if (t->nseg == 0)
		return true;
	return R.src_seg + 1 >= t->nseg && R.src_pos >= seg_end(t, R.src_seg);
}

/* ---- event log ---- */

static inline void hash_bytes(const void *p, size_t n)
{
	const unsigned char *c = p;
	uint64_t h = R.hash;
	for (size_t i = 0; i < n; i++)
		h = (h ^ c[i]) * 0x100000001b3ull;
	R.hash = h;
}

static bool trace_muted;
void sim_trace_mute(bool on) { trace_muted = on; }

void sim_ev(const char *tag, int64_t a, int64_t b, int64_t c)
{
	int64_t v[3] = { a, b, c };
	R.events++;
	hash_bytes(tag, strlen(tag));
	hash_bytes(v, sizeof(v));
	if (R.tracing && !trace_muted)
		tb_printf(&R.trace, "%6llu %s %lld %lld %lld\n",
			  (unsigned long long)R.events, tag, (long long)a,
			  (long long)b, (long long)c);
}

void sim_evs(const char *tag, const char *s)
{
	R.events++;
	hash_bytes(tag, strlen(tag));
	hash_bytes(s, strlen(s) + 1);
	if (R.tracing) {
		tb_printf(&R.trace, "%6llu %s ", (unsigned long long)R.events, tag);
		for (const char *p = s; *p; p++) {
			unsigned char ch = *p;
			if (ch < 0x20 || ch >= 0x7f || ch == '\\')
				tb_printf(&R.trace, "\\x%02x", ch);
			else
				tb_printf(&R.trace, "%c", ch);
		}
		tb_printf(&R.trace, "\n");
	}
}

void sim_note(const char *fmt, ...)
{
	if (!R.tracing)
		return;
	va_list ap;
	char buf[512];
	va_start(ap, fmt);
	vsnprintf(buf, sizeof(buf), fmt, ap);
	va_end(ap);
	tb_printf(&R.trace, "       # %s\n", buf);
}

/* ---- verdicts ---- */

static void leave_run(void) __attribute__((noreturn));
static void leave_run(void)
{
	siglongjmp(run_jmp, 1);
}

void sim_fail(const char *prop, const char *cls, const char *fmt, ...)
{
	va_list ap;
	if (!R.active)
		die("sim_fail outside a run: %s", cls);
	R.outcome = OUT_VIOLATION;
	snprintf(R.cls, sizeof(R.cls), "%s:%s", prop ? prop : cfg.prop, cls);
	va_start(ap, fmt);
	vsnprintf(R.msg, sizeof(R.msg), fmt, ap);
	va_end(ap);
	if (R.tracing)
		tb_printf(&R.trace, "       ! %s: %s\n", R.cls, R.msg);
	leave_run();
}

void sim_discard(const char *why)
{
	R.outcome = OUT_DISCARD;
	snprintf(R.msg, sizeof(R.msg), "%s", why);
	leave_run();
}

void sim_check_sanitizer(void)
{
	if (R.sanitizer_hit) {
		R.sanitizer_hit = 0;
		sim_fail(NULL, R.sanitizer_kind, "sanitizer report during library call");
	}
}

void sim_fault(int k)
{
	if (k >= 0 && k < SIM_MAX_FAULTS)
		R.faults[k]++;
}
void sim_probe(int k)
{
	if (k >= 0 && k < SIM_MAX_PROBES)
		R.probes[k]++;
}
void sim_ops(unsigned n) { R.ops += n; }
void sim_ticks(uint64_t n) { R.ticks += n; }

void sim_budget(uint64_t steps)
{
	R.budget = steps;
	R.budget_armed = true;
}

void sim_step(void)
{
	if (R.budget_armed && R.active) {
		if (R.budget == 0) {
			R.budget_armed = false;
			sim_fail(NULL, "HANG", "step budget exhausted inside a library call");
		}
		R.budget--;
	}
}

/* ------------------------------------------------------------------------ */
/* sanitizer / libc hooks                                                   */
/* ------------------------------------------------------------------------ */

/* a failed assert() inside librfn (or the harness) becomes a violation */
void __assert_fail(const char *expr, const char *file, unsigned int line,
		   const char *func)
{
	const char *base = strrchr(file, '/');
	base = base ? base + 1 : file;
	if (R.active) {
		char cls[128];
		snprintf(cls, sizeof(cls), "ASSERT:%s:%s", base, func ? func : "?");
		sim_fail(NULL, cls, "assertion `%s' failed at %s:%u", expr, base, line);
	}
	fprintf(stderr, "assertion `%s' failed at %s:%u outside a run\n", expr, file, line);
	_exit(2);
}

#if defined(SIM_FLAVOUR_ASAN) || defined(SIM_FLAVOUR_UBSAN)
#define SIM_HAVE_COV 1
static uint8_t cov_map[1 << 16];

void __sanitizer_cov_trace_pc(void)
{
	uintptr_t pc = (uintptr_t)__builtin_return_address(0);
	cov_map[(pc ^ (pc >> 16)) & 0xffff] = 1;
	sim_step();
}

#ifdef SIM_FLAVOUR_ASAN
extern const char *__asan_get_report_description(void);

void __asan_on_error(void)
{
	const char *d = __asan_get_report_description();
	R.sanitizer_hit = 1;
	snprintf(R.sanitizer_kind, sizeof(R.sanitizer_kind), "SANITIZER:asan:%s",
		 d ? d : "?");
}
#endif

/* UBSan calls this weak hook for every report when it is defined */
extern void __ubsan_get_current_report_data(const char **OutIssueKind,
					     const char **OutMessage,
					     const char **OutFilename,
					     unsigned *OutLine, unsigned *OutCol,
					     char **OutMemoryAddr);
void __ubsan_on_report(void)
{
	const char *kind = NULL, *msg = NULL, *file = NULL;
	unsigned line = 0, col = 0;
	char *addr = NULL;
	__ubsan_get_current_report_data(&kind, &msg, &file, &line, &col, &addr);
	if (!R.sanitizer_hit) {
		const char *base = file ? strrchr(file, '/') : NULL;
		base = base ? base + 1 : (file ? file : "?");
		R.sanitizer_hit = 1;
		snprintf(R.sanitizer_kind, sizeof(R.sanitizer_kind),
			 "SANITIZER:ubsan:%s:%s", kind ? kind : "?", base);
	}
}

#ifdef SIM_FLAVOUR_ASAN
__attribute__((used)) const char *__asan_default_options(void)
{
	return "exitcode=77:detect_leaks=0:halt_on_error=0:handle_segv=0:"
	       "handle_sigbus=0:handle_sigfpe=0:handle_abort=0:handle_sigill=0:"
	       "allocator_may_return_null=1:detect_stack_use_after_return=0:suppress_equal_pcs=0:"
	       "print_summary=0";
}
#endif

__attribute__((used)) const char *__ubsan_default_options(void)
{
	return "halt_on_error=0:print_stacktrace=0:print_summary=0";
}
#endif

static unsigned cov_count(void)
{
#ifdef SIM_HAVE_COV
	unsigned n = 0;
	for (size_t i = 0; i < sizeof(cov_map); i++)
		n += cov_map[i];
	return n;
#else
	return 0;
#endif
}

/* ---- signals ---- */

static void on_signal(int sig)
{
	if (R.active) {
		R.outcome = OUT_VIOLATION;
		snprintf(R.cls, sizeof(R.cls), "%s:CRASH:%s", cfg.prop,
			 sig == SIGSEGV ? "SIGSEGV" : sig == SIGFPE ? "SIGFPE" :
			 sig == SIGBUS ? "SIGBUS" : sig == SIGILL ? "SIGILL" :
			 sig == SIGABRT ? "SIGABRT" : "SIG?");
		snprintf(R.msg, sizeof(R.msg), "signal %d inside the run", sig);
		siglongjmp(run_jmp, 1);
	}
	_exit(3);
}

static void install_signals(void)
{
	static char altstack[64 * 1024];
	stack_t ss = { .ss_sp = altstack, .ss_size = sizeof(altstack) };
	sigaltstack(&ss, NULL);
	struct sigaction sa;
	memset(&sa, 0, sizeof(sa));
	sa.sa_handler = on_signal;
	sa.sa_flags = SA_ONSTACK | SA_NODEFER;
	sigemptyset(&sa.sa_mask);
	int sigs[] = { SIGSEGV, SIGBUS, SIGFPE, SIGILL, SIGABRT };
	for (unsigned i = 0; i < sizeof(sigs) / sizeof(sigs[0]); i++)
		sigaction(sigs[i], &sa, NULL);
}

/* ------------------------------------------------------------------------ */
/* library restart by segment restore                                       */
/* ------------------------------------------------------------------------ */

#define MAX_RANGES 8
static struct {
	bool found;
	struct { uintptr_t lo, hi; } text[MAX_RANGES], data[MAX_RANGES], snap[MAX_RANGES];
	int ntext, ndata, nsnap;
	unsigned char *copy[MAX_RANGES];
	bool taken;
} lib;

static int phdr_cb(struct dl_phdr_info *info, size_t size, void *arg)
{
	(void)size;
	(void)arg;
	if (!info->dlpi_name || !strstr(info->dlpi_name, "librfn_sim"))
		return 0;
	uintptr_t relro_lo = 0, relro_hi = 0;
	for (int i = 0; i < info->dlpi_phnum; i++) {
		const ElfW(Phdr) *ph = &info->dlpi_phdr[i];
		if (ph->p_type == PT_GNU_RELRO) {
			relro_lo = info->dlpi_addr + ph->p_vaddr;
			relro_hi = relro_lo + ph->p_memsz;
			/* exactly what ld.so write-protects: both ends rounded DOWN to a page */
			relro_lo &= ~(uintptr_t)4095;
			relro_hi &= ~(uintptr_t)4095;
		}
	}
	for (int i = 0; i < info->dlpi_phnum; i++) {
		const ElfW(Phdr) *ph = &info->dlpi_phdr[i];
		if (ph->p_type != PT_LOAD)
			continue;
		uintptr_t lo = info->dlpi_addr + ph->p_vaddr;
		uintptr_t hi = lo + ph->p_memsz;
		if ((ph->p_flags & PF_X) && lib.ntext < MAX_RANGES) {
			lib.text[lib.ntext].lo = lo;
			lib.text[lib.ntext++].hi = hi;
		} else if (lib.ndata < MAX_RANGES) {
			lib.data[lib.ndata].lo = lo;
			lib.data[lib.ndata++].hi = hi;
		}
		if (ph->p_flags & PF_W) {
			uintptr_t slo = lo, shi = hi;
			if (relro_hi > relro_lo) {
				/* skip the RELRO part (read-only after relocation) */
				if (slo >= relro_lo && slo < relro_hi)
					slo = relro_hi;
				if (shi > relro_lo && shi <= relro_hi)
					shi = relro_lo;
			}
			if (slo < shi && lib.nsnap < MAX_RANGES) {
				lib.snap[lib.nsnap].lo = slo;
				lib.snap[lib.nsnap++].hi = shi;
			}
		}
	}
	lib.found = true;
	return 1;
}

static void raw_copy(volatile unsigned char *d, const volatile unsigned char *s, size_t n)
{
	for (size_t i = 0; i < n; i++)
		d[i] = s[i];
}

void sim_lib_restart(void)
{
	if (!lib.found) {
		dl_iterate_phdr(phdr_cb, NULL);
		if (!lib.found)
			die("librfn_sim shared object not found");
	}
	if (!lib.taken) {
		for (int i = 0; i < lib.nsnap; i++) {
			size_t n = lib.snap[i].hi - lib.snap[i].lo;
			lib.copy[i] = malloc(n);
			raw_copy(lib.copy[i], (void *)lib.snap[i].lo, n);
		}
		lib.taken = true;
		return;
	}
	for (int i = 0; i < lib.nsnap; i++)
		raw_copy((void *)lib.snap[i].lo, lib.copy[i],
			 lib.snap[i].hi - lib.snap[i].lo);
}

/*
 * Locate, without knowing any symbol name, the unique aligned 32-bit word in
 * the library's writable data that increases by exactly one per tick() call.
 * Returns NULL when there is no such word or more than one.
 */
volatile uint32_t *sim_lib_find_counter(void (*tick)(void))
{
	unsigned char *snap[3][MAX_RANGES];
	volatile uint32_t *found = NULL;
	int nfound = 0;
	sim_lib_restart();
	for (int k = 0; k < 3; k++) {
		if (k)
			tick();
		for (int i = 0; i < lib.nsnap; i++) {
			size_t n = lib.snap[i].hi - lib.snap[i].lo;
			snap[k][i] = malloc(n);
			raw_copy(snap[k][i], (void *)lib.snap[i].lo, n);
		}
	}
	for (int i = 0; i < lib.nsnap; i++) {
		size_t n = lib.snap[i].hi - lib.snap[i].lo;
		uintptr_t base = lib.snap[i].lo;
		for (size_t off = (4 - (base & 3)) & 3; off + 4 <= n; off += 4) {
			uint32_t a, b, c;
			memcpy(&a, snap[0][i] + off, 4);
			memcpy(&b, snap[1][i] + off, 4);
			memcpy(&c, snap[2][i] + off, 4);
			if (b == a + 1 && c == b + 1) {
				found = (volatile uint32_t *)(base + off);
				nfound++;
			}
		}
	}
	for (int k = 0; k < 3; k++)
		for (int i = 0; i < lib.nsnap; i++)
			free(snap[k][i]);
	sim_lib_restart();
	return nfound == 1 ? found : NULL;
}

/* FNV hash of the library's writable data (compare two states of the library) */
uint64_t sim_lib_data_hash(void)
{
	uint64_t h = 0xcbf29ce484222325ull;
	for (int i = 0; i < lib.nsnap; i++) {
		volatile unsigned char *p = (void *)lib.snap[i].lo;
		size_t n = lib.snap[i].hi - lib.snap[i].lo;
		for (size_t k = 0; k < n; k++)
			h = (h ^ p[k]) * 0x100000001b3ull;
	}
	return h;
}

bool sim_in_lib_text(const void *pc)
{
	uintptr_t p = (uintptr_t)pc;
	for (int i = 0; i < lib.ntext; i++)
		if (p >= lib.text[i].lo && p < lib.text[i].hi)
			return true;
	return false;
}

bool sim_in_lib_data(const void *ptr, size_t len)
{
	uintptr_t p = (uintptr_t)ptr;
	for (int i = 0; i < lib.ndata; i++)
		if (p >= lib.data[i].lo && p + len <= lib.data[i].hi)
			return true;
	for (int i = 0; i < lib.ntext; i++)	/* constants merged into text */
		if (p >= lib.text[i].lo && p + len <= lib.text[i].hi)
			return true;
	return false;
}

/* ------------------------------------------------------------------------ */
/* per-run allocations with guards                                          */
/* ------------------------------------------------------------------------ */

#define MAX_ALLOCS 4096
static struct {
	void *base;		/* malloc'ed block */
	unsigned char *user;
	size_t len, guard;
	uint8_t pattern;
} allocs[MAX_ALLOCS];
static int nallocs;

void *sim_alloc_guarded(size_t len, size_t guard, uint8_t pattern)
{
	if (nallocs >= MAX_ALLOCS)
		die("too many sim_alloc blocks");
	unsigned char *b = malloc(len + 2 * guard);
	if (!b)
		die("out of memory");
	memset(b, pattern, len + 2 * guard);
	allocs[nallocs].base = b;
	allocs[nallocs].user = b + guard;
	allocs[nallocs].len = len;
	allocs[nallocs].guard = guard;
	allocs[nallocs].pattern = pattern;
	nallocs++;
	memset(b + guard, 0, len);
	return b + guard;
}

void *sim_alloc(size_t len)
{
	/* exact-size block: under ASan one byte beyond is a heap redzone */
	if (nallocs >= MAX_ALLOCS)
		die("too many sim_alloc blocks");
	/* a zero-length block points at the redzone that follows an 8-byte block */
	unsigned char *b = malloc(len ? len : 8);
	if (!b)
		die("out of memory");
	unsigned char *u = len ? b : b + 8;
	memset(b, 0, len);
	allocs[nallocs].base = b;
	allocs[nallocs].user = u;
	allocs[nallocs].len = len;
	allocs[nallocs].guard = 0;
	nallocs++;
	return u;
}

void sim_check_guards(void)
{
	for (int i = 0; i < nallocs; i++) {
		unsigned char *b = allocs[i].base;
		size_t g = allocs[i].guard;
		for (size_t k = 0; k < g; k++) {
			if (b[k] != allocs[i].pattern)
				sim_fail(NULL, "GUARD:before",
					 "byte %zu before a %zu-byte caller block was overwritten",
					 g - k, allocs[i].len);
			if (b[g + allocs[i].len + k] != allocs[i].pattern)
				sim_fail(NULL, "GUARD:after",
					 "byte %zu after a %zu-byte caller block was overwritten",
					 k + 1, allocs[i].len);
		}
	}
}

static void free_allocs(void)
{
	for (int i = 0; i < nallocs; i++)
		free(allocs[i].base);
	nallocs = 0;
}

/* ------------------------------------------------------------------------ */
/* output sink                                                              */
/* ------------------------------------------------------------------------ */

static struct {
	FILE *f;
	tbuf_t buf;
	unsigned short_per_1000, err_per_1000;
} sink;

static ssize_t sink_write(void *cookie, const char *buf, size_t size)
{
	(void)cookie;
	if (size && sink.err_per_1000 && sim_chance(sink.err_per_1000, 1000))
		return 0;	/* error: nothing written */
	if (size > 1 && sink.short_per_1000 && sim_chance(sink.short_per_1000, 1000))
		size = 1 + sim_choose(size - 1);
	tb_reserve(&sink.buf, size);
	memcpy(sink.buf.p + sink.buf.len, buf, size);
	sink.buf.len += size;
	sink.buf.p[sink.buf.len] = 0;
	return size;
}

FILE *sim_sink_open(void)
{
	if (!sink.f) {
		cookie_io_functions_t io = { .write = sink_write };
		sink.f = fopencookie(NULL, "w", io);
		if (!sink.f)
			die("fopencookie failed");
		setvbuf(sink.f, NULL, _IONBF, 0);
	}
	clearerr(sink.f);
	return sink.f;
}

const char *sim_sink_text(size_t *len)
{
	if (sink.f)
		fflush(sink.f);
	tb_reserve(&sink.buf, 0);
	sink.buf.p[sink.buf.len] = 0;
	if (len)
		*len = sink.buf.len;
	return sink.buf.p;
}

void sim_sink_reset(void)
{
	if (sink.f) {
		fflush(sink.f);
		clearerr(sink.f);
	}
	tb_reserve(&sink.buf, 0);
	tb_reset(&sink.buf);
}

void sim_sink_set_faults(unsigned s, unsigned e)
{
	sink.short_per_1000 = s;
	sink.err_per_1000 = e;
}

/* ------------------------------------------------------------------------ */
/* allocation failure injection (librfn_sim.so is linked --wrap=malloc)     */
/* ------------------------------------------------------------------------ */

static int alloc_fail_countdown, alloc_fail_fired;

void *__wrap_malloc(size_t n)
{
	if (alloc_fail_countdown > 0 && --alloc_fail_countdown == 0) {
		alloc_fail_fired++;
		errno = ENOMEM;
		return NULL;
	}
	return malloc(n);
}

unsigned sim_arg_evals;

void sim_once_check(unsigned nargs, const char *call)
{
	unsigned n = sim_arg_evals;
	sim_arg_evals = 0;
	if (n != nargs)
		sim_fail(NULL, "ARG_EVALUATION", "%u argument expression(s) were evaluated %u time(s) in total by: %.120s", nargs, n, call);
}

void sim_alloc_fail_next(int nth)
{
	alloc_fail_countdown = nth;
}

int sim_alloc_fail_fired(void)
{
	int f = alloc_fail_fired;
	alloc_fail_fired = 0;
	return f;
}

#ifndef SIM_FLAVOUR_SIM
/* the .so is linked with --wrap=memset/memcpy/memmove in every flavour; only the sim flavour's
 * runtime does anything with them (ASan intercepts the real functions itself) */
void *__wrap_memset(void *d, int c, size_t n) { return memset(d, c, n); }
void *__wrap_memcpy(void *d, const void *s, size_t n) { return memcpy(d, s, n); }
void *__wrap_memmove(void *d, const void *s, size_t n) { return memmove(d, s, n); }
#endif

/* ------------------------------------------------------------------------ */
/* platform functions librfn expects the environment to provide              */
/* ------------------------------------------------------------------------ */

uint32_t sim_clock;	/* the only clock the library can read */

__attribute__((weak)) uint32_t time_now(void)
{
	return sim_clock;
}

/* librfn_sim.so is linked with --wrap=usleep: the POSIX main loop (posix/fibre_posix.c) sleeps
 * on the simulated clock.  A harness may install a hook (it decides jitter and when to stop). */
int (*sim_usleep_hook)(unsigned int usec);

int __wrap_usleep(unsigned int usec)
{
	if (sim_usleep_hook)
		return sim_usleep_hook(usec);
	sim_clock += usec;
	return 0;
}

struct console;
__attribute__((weak)) void console_hwinit(struct console *c)
{
	(void)c;	/* posix/console_posix.c starts a stdin thread here: stubbed */
}

/* ------------------------------------------------------------------------ */
/* running one tape                                                         */
/* ------------------------------------------------------------------------ */

static bool harness_inited;

/* hook for the sim-flavour runtime (weak: absent in the asan flavour) */
void simrt_run_begin(void) __attribute__((weak));
void simrt_run_end(void) __attribute__((weak));

static void run_begin(uint64_t index)
{
	trace_muted = false;
	sim_arg_evals = 0;
	sim_lib_restart();	/* the first call takes the snapshot */
	if (!harness_inited) {
		harness_inited = true;
		if (sim_harness.init) {
			sim_harness.init();
			sim_lib_restart();
		}
	}
	tape_clear(&R.rec);
	tape_push_seg(&R.rec);
	if (mirror.p) {
		mirror.p[0] = mirror.p[1] = 0;
		mirror_seg();
	}
	R.src_seg = 0;
	R.src_pos = 0;
	R.src_done = false;
	R.hash = 0xcbf29ce484222325ull;
	R.events = 0;
	tb_reset(&R.trace);
	R.outcome = OUT_OK;
	R.cls[0] = 0;
	R.msg[0] = 0;
	memset(R.faults, 0, sizeof(R.faults));
	memset(R.probes, 0, sizeof(R.probes));
	R.ops = 0;
	R.ticks = 0;
	R.budget_armed = false;
	R.sanitizer_hit = 0;
	R.index = index;
	alloc_fail_countdown = 0;
	alloc_fail_fired = 0;
	sim_clock = 0;
	sim_usleep_hook = NULL;
	sink.short_per_1000 = sink.err_per_1000 = 0;
	sim_sink_reset();
	if (simrt_run_begin)
		simrt_run_begin();
}

static void run_body(void)
{
	R.active = true;
	if (0 == sigsetjmp(run_jmp, 1)) {
		sim_harness.run();
		/* late reports */
		if (R.sanitizer_hit) {
			R.sanitizer_hit = 0;
			R.outcome = OUT_VIOLATION;
			snprintf(R.cls, sizeof(R.cls), "%s:%s", cfg.prop, R.sanitizer_kind);
			snprintf(R.msg, sizeof(R.msg), "sanitizer report");
		}
	}
	R.active = false;
	R.budget_armed = false;
	if (simrt_run_end)
		simrt_run_end();
	free_allocs();
}

static void run_record(uint64_t index, bool trace)
{
	run_begin(index);
	R.replay = false;
	R.rng = mix2(cfg.seed, index);
	R.tracing = trace;
	run_body();
}

static void run_replay(const tape_t *t, uint64_t index, bool trace)
{
	run_begin(index);
	R.replay = true;
	R.src = t;
	R.tracing = trace;
	run_body();
}

/* ------------------------------------------------------------------------ */
/* shrinking                                                                */
/* ------------------------------------------------------------------------ */

static unsigned shrink_evals;

/* evaluate a candidate tape in a forked child; true if same class recurs */
static bool candidate_fails(const tape_t *t, const char *cls)
{
	int fd[2];
	shrink_evals++;
	if (pipe(fd))
		die("pipe");
	fflush(NULL);
	pid_t pid = fork();
	if (pid < 0)
		die("fork");
	if (pid == 0) {
		close(fd[0]);
		alarm(20);
		run_replay(t, R.index, false);
		if (R.outcome == OUT_VIOLATION) {
			ssize_t w = write(fd[1], R.cls, strlen(R.cls));
			(void)w;
		}
		_exit(0);
	}
	close(fd[1]);
	char buf[200];
	size_t n = 0;
	for (;;) {
		ssize_t r = read(fd[0], buf + n, sizeof(buf) - 1 - n);
		if (r <= 0)
			break;
		n += r;
	}
	buf[n] = 0;
	close(fd[0]);
	int st;
	waitpid(pid, &st, 0);
	if (n == 0 && WIFSIGNALED(st)) {
		/* child died without reporting (e.g. stack smashed) */
		snprintf(buf, sizeof(buf), "%s:CRASH:child-signal-%d", cfg.prop, WTERMSIG(st));
	} else if (n == 0 && WIFEXITED(st) && WEXITSTATUS(st) == 77) {
		snprintf(buf, sizeof(buf), "%s:SANITIZER:fatal", cfg.prop);
	}
	return 0 == strcmp(buf, cls);
}

/* build a tape from t without segments [a,b) */
static void tape_without_segs(tape_t *d, const tape_t *s, uint32_t a, uint32_t b)
{
	tape_clear(d);
	for (uint32_t sg = 0; sg < s->nseg; sg++) {
		if (sg >= a && sg < b)
			continue;
		tape_push_seg(d);
		for (uint32_t i = s->seg[sg]; i < seg_end(s, sg); i++)
			tape_push_val(d, s->v[i]);
	}
}

/* build a tape from s without values [a,b) (segment boundaries kept) */
static void tape_without_vals(tape_t *d, const tape_t *s, uint32_t a, uint32_t b)
{
	tape_clear(d);
	uint32_t sg = 0;
	for (uint32_t i = 0; i <= s->n; i++) {
		while (sg < s->nseg && s->seg[sg] == i) {
			tape_push_seg(d);
			sg++;
		}
		if (i < s->n && !(i >= a && i < b))
			tape_push_val(d, s->v[i]);
	}
}

static bool try_cand(tape_t *best, tape_t *cand, const char *cls)
{
	if (candidate_fails(cand, cls)) {
		tape_copy(best, cand);
		return true;
	}
	return false;
}

static void shrink(tape_t *best, const char *cls, double deadline)
{
	static tape_t cand;
	bool progress = true;
	int rounds = 0;

	while (progress && rounds++ < 10 && now_s() < deadline) {
		progress = false;

		/* 1. delete runs of whole segments, back to front (segment 0 is the
		 *    header and is kept) */
		for (uint32_t chunk = best->nseg > 2 ? (best->nseg - 1) / 2 : 1;;
		     chunk /= 2) {
			uint32_t a = best->nseg;
			while (a > 1) {
				if (now_s() > deadline)
					return;
				uint32_t lo = a > chunk + 1 ? a - chunk : 1;
				tape_without_segs(&cand, best, lo, a);
				if (try_cand(best, &cand, cls)) {
					progress = true;
				} else if (cand.nseg > 0) {
					/* many harnesses keep an element count in the header (segment 0):
					 * dropping k element segments usually needs that count lowered by k */
					uint32_t k = a - lo, hdr = seg_end(&cand, 0);
					for (uint32_t j = 0; j < hdr && j < 16; j++) {
						if (cand.v[j] < k)
							continue;
						if (now_s() > deadline)
							return;
						cand.v[j] -= k;
						if (try_cand(best, &cand, cls)) {
							progress = true;
							break;
						}
						cand.v[j] += k;
					}
				}
				a = lo;
			}
			if (chunk <= 1)
				break;
		}

		/* 2. delete chunks of values inside each segment */
		for (uint32_t sg = 0; sg < best->nseg; sg++) {
			uint32_t len = seg_end(best, sg) - best->seg[sg];
			/* tail truncation */
			for (uint32_t chunk = len; chunk >= 1; chunk /= 2) {
				if (now_s() > deadline)
					return;
				uint32_t h = seg_end(best, sg), l = best->seg[sg];
				if (h - l >= chunk) {
					tape_without_vals(&cand, best, h - chunk, h);
					if (try_cand(best, &cand, cls))
						progress = true;
				}
				if (chunk == 1)
					break;
			}
			/* interior chunks (schedule decisions shift forward) */
			for (uint32_t chunk = 32; chunk >= 1; chunk /= 4) {
				uint32_t a = best->seg[sg];
				unsigned tries = 0;
				while (a + chunk <= seg_end(best, sg) && tries++ < 200) {
					if (now_s() > deadline)
						return;
					tape_without_vals(&cand, best, a, a + chunk);
					if (try_cand(best, &cand, cls))
						progress = true;
					else
						a += chunk;
				}
				if (chunk == 1)
					break;
			}
		}

		/* 3. shrink single values: zero, then repeated halving, then decrements */
		for (uint32_t i = 0; i < best->n; i++) {
			if (!best->v[i])
				continue;
			if (now_s() > deadline)
				return;
			tape_copy(&cand, best);
			cand.v[i] = 0;
			if (try_cand(best, &cand, cls)) {
				progress = true;
				continue;
			}
			while (best->v[i] > 1) {
				if (now_s() > deadline)
					return;
				tape_copy(&cand, best);
				cand.v[i] = best->v[i] / 2;
				if (!try_cand(best, &cand, cls))
					break;
				progress = true;
			}
			for (int k = 0; k < 6 && best->v[i] > 1; k++) {
				if (now_s() > deadline)
					return;
				tape_copy(&cand, best);
				cand.v[i] = best->v[i] - 1;
				if (!try_cand(best, &cand, cls))
					break;
				progress = true;
			}
		}
	}
}

/* ------------------------------------------------------------------------ */
/* replay files                                                             */
/* ------------------------------------------------------------------------ */

static void tape_to_text(tbuf_t *b, const tape_t *t)
{
	for (uint32_t sg = 0; sg < t->nseg; sg++) {
		if (sg)
			tb_printf(b, "|");
		for (uint32_t i = t->seg[sg]; i < seg_end(t, sg); i++)
			tb_printf(b, i == t->seg[sg] ? "%u" : ",%u", t->v[i]);
	}
}

static void tape_from_text(tape_t *t, const char *s)
{
	tape_clear(t);
	tape_push_seg(t);
	while (*s && *s != '"') {
		if (*s == '|') {
			tape_push_seg(t);
			s++;
		} else if (*s == ',') {
			s++;
		} else if (*s >= '0' && *s <= '9') {
			tape_push_val(t, strtoul(s, (char **)&s, 10));
		} else {
			die("bad tape text at '%.10s'", s);
		}
	}
}

static void write_replay_file(const char *path, const tape_t *t, uint64_t index,
			      const char *cls, const char *msg, uint64_t hash,
			      const tape_t *orig, unsigned evals)
{
	tbuf_t b = { 0 };
	tb_printf(&b, "{\n \"format\": \"librfn-sim-replay-1\",\n");
	tb_printf(&b, " \"property\": \"%s\",\n \"harness\": \"%s\",\n \"flavour\": \"%s\",\n",
		  cfg.prop, sim_harness.name, sim_harness.flavour);
	tb_printf(&b, " \"tier\": \"%s\",\n \"variant\": \"%s\",\n", cfg.thorough ? "thorough" : "quick", cfg.variant);
	tb_printf(&b, " \"seed\": %llu,\n \"index\": %llu,\n", (unsigned long long)cfg.seed,
		  (unsigned long long)index);
	tb_printf(&b, " \"class\": ");
	tb_json_str(&b, cls, strlen(cls));
	tb_printf(&b, ",\n \"message\": ");
	tb_json_str(&b, msg, strlen(msg));
	tb_printf(&b, ",\n \"hash\": \"%016llx\",\n", (unsigned long long)hash);
	tb_printf(&b, " \"original_tape_values\": %u,\n \"original_tape_segments\": %u,\n",
		  orig->n, orig->nseg);
	tb_printf(&b, " \"minimised_tape_values\": %u,\n \"minimised_tape_segments\": %u,\n",
		  t->n, t->nseg);
	tb_printf(&b, " \"shrink_candidates_evaluated\": %u,\n", evals);
	tb_printf(&b, " \"tape\": \"");
	tape_to_text(&b, t);
	tb_printf(&b, "\",\n \"trace\": [\n");
	/* trace lines */
	const char *p = R.trace.p ? R.trace.p : "";
	bool first = true;
	while (*p) {
		const char *e = strchr(p, '\n');
		size_t n = e ? (size_t)(e - p) : strlen(p);
		tb_printf(&b, first ? "  " : ",\n  ");
		tb_json_str(&b, p, n);
		first = false;
		p += n + (e ? 1 : 0);
	}
	tb_printf(&b, "\n ]\n}\n");
	FILE *f = fopen(path, "w");
	if (!f)
		die("cannot write %s", path);
	fwrite(b.p, 1, b.len, f);
	fclose(f);
	free(b.p);
}

static char *slurp(const char *path)
{
	FILE *f = fopen(path, "r");
	if (!f)
		return NULL;
	fseek(f, 0, SEEK_END);
	long n = ftell(f);
	fseek(f, 0, SEEK_SET);
	char *p = malloc(n + 1);
	if (fread(p, 1, n, f) != (size_t)n)
		die("short read of %s", path);
	p[n] = 0;
	fclose(f);
	return p;
}

static bool json_field(const char *doc, const char *key, char *out, size_t outsz)
{
	char pat[64];
	snprintf(pat, sizeof(pat), "\"%s\":", key);
	const char *p = strstr(doc, pat);
	if (!p)
		return false;
	p += strlen(pat);
	while (*p == ' ')
		p++;
	size_t n = 0;
	if (*p == '"') {
		p++;
		while (*p && *p != '"' && n + 1 < outsz) {
			if (*p == '\\' && p[1])
				p++;
			out[n++] = *p++;
		}
	} else {
		while (*p && *p != ',' && *p != '\n' && n + 1 < outsz)
			out[n++] = *p++;
	}
	out[n] = 0;
	return true;
}

/* ------------------------------------------------------------------------ */
/* known findings                                                           */
/* ------------------------------------------------------------------------ */

#define MAX_KNOWN 32
static struct {
	char cls[160];
	char text[256];
	bool printed;
	unsigned hits;
} known[MAX_KNOWN];
static int nknown;

static void load_known(const char *path)
{
	FILE *f = path ? fopen(path, "r") : NULL;
	if (!f)
		return;
	char line[600];
	while (fgets(line, sizeof(line), f) && nknown < MAX_KNOWN) {
		if (strncmp(line, "finding:", 8))
			continue;
		char *c = strstr(line, "class=");
		if (!c)
			continue;
		c += 6;
		size_t n = strcspn(c, " \t\n");
		if (n >= sizeof(known[0].cls))
			continue;
		memcpy(known[nknown].cls, c, n);
		known[nknown].cls[n] = 0;
		char *rest = c + n;
		while (*rest == ' ')
			rest++;
		rest[strcspn(rest, "\n")] = 0;
		snprintf(known[nknown].text, sizeof(known[nknown].text), "%s", rest);
		nknown++;
	}
	fclose(f);
}

static int known_index(const char *cls)
{
	for (int i = 0; i < nknown; i++)
		if (0 == strcmp(known[i].cls, cls))
			return i;
	return -1;
}

/* ------------------------------------------------------------------------ */
/* hash set for distinct runs                                               */
/* ------------------------------------------------------------------------ */

static struct {
	uint64_t *slot;
	size_t cap, n;
} hs;

static void hs_add(uint64_t h)
{
	if (!h)
		h = 1;
	if ((hs.n + 1) * 2 > hs.cap) {
		size_t ncap = hs.cap ? hs.cap * 2 : 1 << 16;
		uint64_t *ns = calloc(ncap, sizeof(uint64_t));
		if (!ns)
			die("out of memory");
		for (size_t i = 0; i < hs.cap; i++)
			if (hs.slot[i]) {
				size_t j = hs.slot[i] & (ncap - 1);
				while (ns[j])
					j = (j + 1) & (ncap - 1);
				ns[j] = hs.slot[i];
			}
		free(hs.slot);
		hs.slot = ns;
		hs.cap = ncap;
	}
	size_t j = h & (hs.cap - 1);
	while (hs.slot[j]) {
		if (hs.slot[j] == h)
			return;
		j = (j + 1) & (hs.cap - 1);
	}
	hs.slot[j] = h;
	hs.n++;
}

/* ------------------------------------------------------------------------ */
/* worker                                                                   */
/* ------------------------------------------------------------------------ */

static int count_names(const char *const *names)
{
	int n = 0;
	if (names)
		while (names[n])
			n++;
	return n;
}

static bool is_own_class(const char *cls)
{
	size_t n = strlen(cfg.prop);
	return 0 == strncmp(cls, cfg.prop, n) && cls[n] == ':';
}

static volatile uint64_t *progress;

static void open_progress(void)
{
	if (!cfg.out)
		return;
	char path[600];
	snprintf(path, sizeof(path), "%s.progress", cfg.out);
	int fd = open(path, O_RDWR | O_CREAT | O_TRUNC, 0644);
	if (fd < 0 || ftruncate(fd, 8))
		return;
	void *p = mmap(NULL, 8, PROT_READ | PROT_WRITE, MAP_SHARED, fd, 0);
	close(fd);
	if (p != MAP_FAILED)
		progress = p;
}

static int cmd_run(void)
{
	double t0 = now_s();
	uint64_t runs = 0, nontrivial = 0, discards = 0, foreign = 0, tot_ops = 0,
		 tot_ticks = 0, tot_events = 0, tot_choices = 0, determinism_checked = 0;
	uint64_t faults[SIM_MAX_FAULTS] = { 0 }, probes[SIM_MAX_PROBES] = { 0 };
	int nf = count_names(sim_harness.fault_names);
	int np = count_names(sim_harness.probe_names);
	tbuf_t samples = { 0 };
	int nsamples = 0;
	int rc = 0;
	char candidate[512] = "";
	char cand_cls[160] = "";
	static tape_t orig, best;
	char foreign_cls[160] = "";

	load_known(cfg.known);
	open_progress();

	for (uint64_t i = cfg.worker; i < cfg.runs; i += cfg.workers) {
		if (cfg.max_wall > 0 && now_s() - t0 > cfg.max_wall)
			break;
		if (progress)
			*progress = i + 1;	/* the driver re-runs this index alone if the process dies */
		run_record(i, false);
		runs++;
		tot_choices += R.rec.n;
		tot_events += R.events;
		if (R.outcome == OUT_DISCARD) {
			discards++;
			continue;
		}
		tot_ops += R.ops;
		tot_ticks += R.ticks;
		bool any = false;
		for (int k = 0; k < nf; k++) {
			faults[k] += R.faults[k];
			any |= R.faults[k] != 0;
		}
		for (int k = 0; k < np; k++) {
			probes[k] += R.probes[k];
			any |= R.probes[k] != 0;
		}
		bool nontriv = any && R.ops >= sim_harness.min_ops;
		if (nontriv) {
			nontrivial++;
			if (R.hash % cfg.sample_mod == 0)
				hs_add(R.hash);
		}

		if (R.outcome == OUT_OK) {
			/* self-check of determinism on a 1% sample, and samples */
			bool want_sample = cfg.worker == 0 && nontriv && nsamples < 3;
			if (want_sample || (i / cfg.workers) % 100 == 0) {
				uint64_t h = R.hash;
				tape_copy(&orig, &R.rec);
				run_replay(&orig, i, want_sample);
				determinism_checked++;
				if (R.hash != h || R.outcome != OUT_OK) {
					fprintf(stderr,
						"sim: nondeterminism at index %llu: hash %016llx vs %016llx outcome %d %s\n",
						(unsigned long long)i, (unsigned long long)h,
						(unsigned long long)R.hash, R.outcome, R.cls);
					rc = 2;
					break;
				}
				if (want_sample) {
					tb_printf(&samples, nsamples ? ",\n  " : "  ");
					tb_printf(&samples, "{\"index\": %llu, \"trace\": ",
						  (unsigned long long)i);
					size_t n = R.trace.len;
					if (n > 6000)
						n = 6000;
					tb_json_str(&samples, R.trace.p ? R.trace.p : "", n);
					tb_printf(&samples, ", \"truncated\": %s}",
						  R.trace.len > 6000 ? "true" : "false");
					nsamples++;
				}
			}
			continue;
		}

		/* a violation */
		if (!is_own_class(R.cls)) {
			foreign++;
			if (!foreign_cls[0])
				snprintf(foreign_cls, sizeof(foreign_cls), "%s", R.cls);
			continue;
		}
		int ki = known_index(R.cls);
		if (ki >= 0) {
			known[ki].hits++;
			continue;
		}

		/* new violation: determinism gate, shrink, write replay file */
		char cls[160], msg[512];
		snprintf(cls, sizeof(cls), "%s", R.cls);
		snprintf(msg, sizeof(msg), "%s", R.msg);
		uint64_t h = R.hash;
		tape_copy(&orig, &R.rec);
		run_replay(&orig, i, false);
		if (R.outcome != OUT_VIOLATION || strcmp(R.cls, cls) || R.hash != h) {
			fprintf(stderr,
				"sim: violation %s at index %llu does not reproduce in-process (%s, hash %016llx vs %016llx)\n",
				cls, (unsigned long long)i, R.cls, (unsigned long long)h,
				(unsigned long long)R.hash);
			rc = 2;
			break;
		}
		tape_copy(&best, &orig);
		shrink_evals = 0;
		shrink(&best, cls, now_s() + (cfg.thorough ? 120 : 45));
		/* final traced run of the minimised tape */
		run_replay(&best, i, true);
		if (R.outcome != OUT_VIOLATION || strcmp(R.cls, cls)) {
			/* shrinking was evaluated in children; fall back to the original */
			tape_copy(&best, &orig);
			run_replay(&best, i, true);
		}
		snprintf(candidate, sizeof(candidate), "%s/%s-%s-%s-%llu-%llu.json", cfg.replay_dir,
			 cfg.prop, sim_harness.name, sim_harness.flavour, (unsigned long long)cfg.seed,
			 (unsigned long long)i);
		snprintf(cand_cls, sizeof(cand_cls), "%s", cls);
		write_replay_file(candidate, &best, i, R.cls, R.msg, R.hash, &orig, shrink_evals);
		rc = 1;
		break;
	}

	double wall = now_s() - t0;

	/* statistics for the driver */
	tbuf_t b = { 0 };
	tb_printf(&b, "{\n \"harness\": \"%s\", \"flavour\": \"%s\", \"property\": \"%s\",\n",
		  sim_harness.name, sim_harness.flavour, cfg.prop);
	tb_printf(&b, " \"worker\": %u, \"workers\": %u, \"seed\": %llu, \"rc\": %d,\n",
		  cfg.worker, cfg.workers, (unsigned long long)cfg.seed, rc);
	tb_printf(&b, " \"runs\": %llu, \"nontrivial\": %llu, \"discards\": %llu, \"foreign\": %llu,\n",
		  (unsigned long long)runs, (unsigned long long)nontrivial,
		  (unsigned long long)discards, (unsigned long long)foreign);
	tb_printf(&b, " \"foreign_class\": \"%s\",\n", foreign_cls);
	tb_printf(&b, " \"ops\": %llu, \"ticks\": %llu, \"events\": %llu, \"choices\": %llu,\n",
		  (unsigned long long)tot_ops, (unsigned long long)tot_ticks,
		  (unsigned long long)tot_events, (unsigned long long)tot_choices);
	tb_printf(&b, " \"determinism_rechecked\": %llu, \"edges\": %u, \"wall_s\": %.3f,\n",
		  (unsigned long long)determinism_checked, cov_count(), wall);
	tb_printf(&b, " \"sample_mod\": %u, \"min_ops\": %u,\n", cfg.sample_mod,
		  sim_harness.min_ops);
	tb_printf(&b, " \"rule\": ");
	tb_json_str(&b, sim_harness.rule ? sim_harness.rule : "",
		    strlen(sim_harness.rule ? sim_harness.rule : ""));
	tb_printf(&b, ",\n \"real\": ");
	tb_json_str(&b, sim_harness.real ? sim_harness.real : "",
		    strlen(sim_harness.real ? sim_harness.real : ""));
	tb_printf(&b, ",\n \"stub\": ");
	tb_json_str(&b, sim_harness.stub ? sim_harness.stub : "",
		    strlen(sim_harness.stub ? sim_harness.stub : ""));
	tb_printf(&b, ",\n \"faults\": {");
	for (int k = 0; k < nf; k++)
		tb_printf(&b, "%s\"%s\": %llu", k ? ", " : "", sim_harness.fault_names[k],
			  (unsigned long long)faults[k]);
	tb_printf(&b, "},\n \"probes\": {");
	for (int k = 0; k < np; k++)
		tb_printf(&b, "%s\"%s\": %llu", k ? ", " : "", sim_harness.probe_names[k],
			  (unsigned long long)probes[k]);
	tb_printf(&b, "},\n \"known\": [");
	bool firstk = true;
	for (int k = 0; k < nknown; k++)
		if (known[k].hits) {
			tb_printf(&b, "%s{\"class\": \"%s\", \"hits\": %u, \"text\": ",
				  firstk ? "" : ", ", known[k].cls, known[k].hits);
			tb_json_str(&b, known[k].text, strlen(known[k].text));
			tb_printf(&b, "}");
			firstk = false;
		}
	tb_printf(&b, "],\n \"candidate\": \"%s\", \"candidate_class\": ", candidate);
	tb_json_str(&b, cand_cls, strlen(cand_cls));
	tb_printf(&b, ",\n \"hashes\": [");
	bool firsth = true;
	for (size_t k = 0; k < hs.cap; k++)
		if (hs.slot[k]) {
			tb_printf(&b, firsth ? "%llu" : ",%llu", (unsigned long long)hs.slot[k]);
			firsth = false;
		}
	tb_printf(&b, "],\n \"samples\": [\n%s\n ]\n}\n", samples.p ? samples.p : "");
	if (cfg.out) {
		FILE *f = fopen(cfg.out, "w");
		if (!f)
			die("cannot write %s", cfg.out);
		fwrite(b.p, 1, b.len, f);
		fclose(f);
	} else {
		fwrite(b.p, 1, b.len, stdout);
	}
	if (rc == 1)
		printf("CANDIDATE class=%s replay=%s\n", cand_cls, candidate);
	fflush(stdout);
	return rc;
}

static void child_class(const tape_t *t, char *out, size_t outsz);

static int cmd_replay(const char *path)
{
	char *doc = slurp(path);
	if (!doc)
		die("cannot read %s", path);
	char prop[32], cls[200], tier[32], seed[32], index[32], hash[32];
	if (!json_field(doc, "property", prop, sizeof(prop)) ||
	    !json_field(doc, "class", cls, sizeof(cls)) ||
	    !json_field(doc, "index", index, sizeof(index)))
		die("%s: not a replay file", path);
	json_field(doc, "tier", tier, sizeof(tier));
	json_field(doc, "seed", seed, sizeof(seed));
	json_field(doc, "hash", hash, sizeof(hash));
	const char *tp = strstr(doc, "\"tape\": \"");
	if (!tp)
		die("%s: no tape", path);
	static tape_t t;
	tape_from_text(&t, tp + 9);
	snprintf(cfg.prop, sizeof(cfg.prop), "%s", prop);
	cfg.thorough = 0 == strcmp(tier, "thorough");
	cfg.seed = strtoull(seed, NULL, 10);
	R.index = strtoull(index, NULL, 10);
	if (strstr(cls, ":CRASH:child-signal-") || strstr(cls, ":SANITIZER:fatal")) {
		/* this tape kills the process that runs it: replay it in a child */
		char got[200];
		child_class(&t, got, sizeof(got));
		printf("replay: expected class %s\nreplay: got      class %s\n", cls, got[0] ? got : "(none)");
		if (!strcmp(got, cls)) {
			printf("REPRODUCED class=%s hash_match=yes\n", cls);
			return 1;
		}
		return got[0] ? 1 : 0;
	}
	run_replay(&t, strtoull(index, NULL, 10), true);
	if (cfg.trace)
		fputs(R.trace.p ? R.trace.p : "", stdout);
	printf("replay: expected class %s hash %s\n", cls, hash);
	if (R.outcome == OUT_VIOLATION) {
		printf("replay: got      class %s hash %016llx\n", R.cls,
		       (unsigned long long)R.hash);
		printf("replay: %s\n", R.msg);
		if (0 == strcmp(R.cls, cls)) {
			char hx[32];
			snprintf(hx, sizeof(hx), "%016llx", (unsigned long long)R.hash);
			printf("REPRODUCED class=%s hash_match=%s\n", cls,
			       0 == strcmp(hx, hash) ? "yes" : "no");
			return 1;
		}
		printf("DIFFERENT-VIOLATION class=%s\n", R.cls);
		return 1;
	}
	printf("replay: no violation (outcome %d)\n", R.outcome);
	return 0;
}

/* class a tape produces when run in a forked child ("" = no violation) */
static void child_class(const tape_t *t, char *out, size_t outsz)
{
	int fd[2];
	out[0] = 0;
	if (pipe(fd))
		die("pipe");
	fflush(NULL);
	pid_t pid = fork();
	if (pid < 0)
		die("fork");
	if (pid == 0) {
		close(fd[0]);
		alarm(60);
		run_replay(t, R.index, false);
		if (R.outcome == OUT_VIOLATION) {
			ssize_t w = write(fd[1], R.cls, strlen(R.cls));
			(void)w;
		}
		_exit(0);
	}
	close(fd[1]);
	size_t n = 0;
	for (;;) {
		ssize_t r = read(fd[0], out + n, outsz - 1 - n);
		if (r <= 0)
			break;
		n += r;
	}
	out[n] = 0;
	close(fd[0]);
	int st;
	waitpid(pid, &st, 0);
	if (n == 0 && WIFSIGNALED(st))
		snprintf(out, outsz, "%s:CRASH:child-signal-%d", cfg.prop, WTERMSIG(st));
	else if (n == 0 && WIFEXITED(st) && WEXITSTATUS(st) == 77)
		snprintf(out, outsz, "%s:SANITIZER:fatal", cfg.prop);
}

/*
 * The worker process died while running this index (killed by the kernel, fatal
 * sanitizer error, stack smashed...).  Re-run it in a child that mirrors its tape
 * into shared memory, take the tape prefix that led to the death, shrink, write
 * the replay file.
 */
static int cmd_crashrun(uint64_t index)
{
	mirror.cap = 1u << 22;
	mirror.p = mmap(NULL, mirror.cap * sizeof(uint32_t), PROT_READ | PROT_WRITE,
			MAP_SHARED | MAP_ANONYMOUS, -1, 0);
	if (mirror.p == MAP_FAILED)
		die("mmap");
	fflush(NULL);
	pid_t pid = fork();
	if (pid < 0)
		die("fork");
	if (pid == 0) {
		alarm(120);
		run_record(index, false);
		_exit(R.outcome == OUT_VIOLATION ? 10 : 0);
	}
	int st;
	waitpid(pid, &st, 0);
	static tape_t t, best;
	tape_clear(&t);
	uint32_t nv = mirror.p[0], ns = mirror.p[1];
	for (uint32_t i = 0, sg = 0; i <= nv; i++) {
		while (sg < ns && mirror.p[mirror.cap - 1 - sg] == i) {
			tape_push_seg(&t);
			sg++;
		}
		if (i < nv)
			tape_push_val(&t, mirror.p[2 + i]);
	}
	munmap(mirror.p, mirror.cap * sizeof(uint32_t));
	mirror.p = NULL;
	R.index = index;
	char cls[200];
	child_class(&t, cls, sizeof(cls));
	if (!cls[0]) {
		printf("crashrun: index %llu did not fail when re-run in a fresh child (status %d)\n",
		       (unsigned long long)index, st);
		return 0;
	}
	tape_copy(&best, &t);
	shrink_evals = 0;
	shrink(&best, cls, now_s() + 60);
	char path[512];
	snprintf(path, sizeof(path), "%s/%s-%s-%s-%llu-%llu.json", cfg.replay_dir, cfg.prop,
		 sim_harness.name, sim_harness.flavour, (unsigned long long)cfg.seed,
		 (unsigned long long)index);
	tb_reset(&R.trace);
	tb_printf(&R.trace, "(the run kills its process: no trace can be recorded)\n");
	write_replay_file(path, &best, index, cls,
			  "the process running this tape dies (signal or fatal sanitizer error)", 0, &t,
			  shrink_evals);
	printf("CANDIDATE class=%s replay=%s\n", cls, path);
	return 1;
}

static const char *dump_path;

static int cmd_one(uint64_t index)
{
	run_record(index, cfg.trace);
	if (getenv("SIM_TWICE")) {
		static tape_t t2;
		tape_copy(&t2, &R.rec);
		printf("first: outcome %d class '%s' hash %016llx\n", R.outcome, R.cls, (unsigned long long)R.hash);
		run_replay(&t2, index, cfg.trace);
		if (cfg.trace)
			fputs(R.trace.p ? R.trace.p : "", stdout);
		printf("second: outcome %d class '%s' hash %016llx\n", R.outcome, R.cls, (unsigned long long)R.hash);
	}
	if (dump_path) {
		static tape_t t;
		tape_copy(&t, &R.rec);
		write_replay_file(dump_path, &t, index, R.cls[0] ? R.cls : "none", R.msg, R.hash, &t, 0);
	}
	if (cfg.trace)
		fputs(R.trace.p ? R.trace.p : "", stdout);
	printf("index %llu: outcome %d class '%s' msg '%s' hash %016llx ops %llu choices %u segs %u\n",
	       (unsigned long long)index, R.outcome, R.cls, R.msg,
	       (unsigned long long)R.hash, (unsigned long long)R.ops, R.rec.n, R.rec.nseg);
	return R.outcome == OUT_VIOLATION;
}

/* print "index hash class" for a range: used by the determinism self-test */
static int cmd_hashes(void)
{
	for (uint64_t i = cfg.worker; i < cfg.runs; i += cfg.workers) {
		run_record(i, false);
		printf("%llu %016llx %d %s\n", (unsigned long long)i,
		       (unsigned long long)R.hash, R.outcome, R.cls);
	}
	return 0;
}

int sim_main(int argc, char **argv)
{
	const char *cmd = argc > 1 ? argv[1] : "";
	const char *file = NULL;
	uint64_t index = 0;

	for (int i = 2; i < argc; i++) {
		const char *a = argv[i];
		const char *v = i + 1 < argc ? argv[i + 1] : "";
		if (!strcmp(a, "--prop")) { snprintf(cfg.prop, sizeof(cfg.prop), "%s", v); i++; }
		else if (!strcmp(a, "--tier")) { cfg.thorough = !strcmp(v, "thorough"); i++; }
		else if (!strcmp(a, "--seed")) { cfg.seed = strtoull(v, NULL, 10); i++; }
		else if (!strcmp(a, "--worker")) { cfg.worker = atoi(v); i++; }
		else if (!strcmp(a, "--workers")) { cfg.workers = atoi(v); i++; }
		else if (!strcmp(a, "--runs")) { cfg.runs = strtoull(v, NULL, 10); i++; }
		else if (!strcmp(a, "--out")) { cfg.out = v; i++; }
		else if (!strcmp(a, "--replay-dir")) { cfg.replay_dir = v; i++; }
		else if (!strcmp(a, "--known")) { cfg.known = v; i++; }
		else if (!strcmp(a, "--sample-mod")) { cfg.sample_mod = atoi(v); i++; }
		else if (!strcmp(a, "--max-wall")) { cfg.max_wall = atof(v); i++; }
		else if (!strcmp(a, "--index")) { index = strtoull(v, NULL, 10); i++; }
		else if (!strcmp(a, "--trace")) { cfg.trace = true; }
		else if (!strcmp(a, "--variant")) { cfg.variant = v; i++; }
		else if (!strcmp(a, "--dump")) { dump_path = v; i++; }
		else if (a[0] != '-') { file = a; }
		else die("unknown option %s", a);
	}
	if (cfg.workers < 1)
		cfg.workers = 1;
	if (cfg.sample_mod < 1)
		cfg.sample_mod = 1;

	install_signals();

	if (!strcmp(cmd, "run"))
		return cmd_run();
	if (!strcmp(cmd, "replay") && file)
		return cmd_replay(file);
	if (!strcmp(cmd, "one"))
		return cmd_one(index);
	if (!strcmp(cmd, "crashrun"))
		return cmd_crashrun(index);
	if (!strcmp(cmd, "hashes"))
		return cmd_hashes();
	fprintf(stderr,
		"usage: %s run|replay|one|hashes [--prop P] [--tier T] [--seed S] ...\n",
		argv[0]);
	return 2;
}
