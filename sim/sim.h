/*
 * sim.h - deterministic simulator core for librfn (see /verif/DESIGN.md section 2)
 *
 * One run is a pure function run(harness, property, tape) -> outcome.  Every
 * decision of a run is drawn through sim_choose() and recorded on the tape;
 * replay re-reads the tape.  Logging (sim_ev*) never draws and never reads a
 * real clock.
 */
#ifndef VERIF_SIM_H_
#define VERIF_SIM_H_

#include <stdbool.h>
#include <stddef.h>
#include <stdint.h>

#define SIM_MAX_FAULTS 32
#define SIM_MAX_PROBES 48

typedef struct sim_harness {
	const char *name;		/* harness name (h_xxx)                      */
	const char *flavour;		/* "asan" or "sim"                           */
	void (*run)(void);		/* execute one run                           */
	void (*init)(void);		/* once per process, before the snapshot     */
	const char *const *fault_names;	/* NULL terminated                           */
	const char *const *probe_names;	/* NULL terminated                           */
	unsigned min_ops;		/* non-trivial rule: at least this many ops  */
	const char *rule;		/* text for evidence "rule"                  */
	const char *real;		/* components that ran real code             */
	const char *stub;		/* components that ran a stub                */
} sim_harness_t;

/* defined by each harness */
extern const sim_harness_t sim_harness;

/* ---- choice tape ------------------------------------------------------- */
uint32_t sim_choose(uint32_t n);		/* 0..n-1, 0 is the simplest choice  */
uint32_t sim_range(uint32_t lo, uint32_t hi);	/* inclusive                         */
bool sim_chance(uint32_t num, uint32_t den);	/* true with probability num/den     */
uint32_t sim_bits32(void);			/* full 32-bit value (two draws)     */
void sim_seg(void);				/* start a new tape segment          */
bool sim_tape_done(void);			/* replay: nothing left on the tape  */
bool sim_replaying(void);

/* ---- event log ---------------------------------------------------------- */
void sim_ev(const char *tag, int64_t a, int64_t b, int64_t c);
void sim_evs(const char *tag, const char *s);
void sim_note(const char *fmt, ...) __attribute__((format(printf, 1, 2)));
						/* trace-only text (not hashed)      */
uint64_t sim_event_no(void);			/* global event sequence number      */
bool sim_tracing(void);

/* ---- verdicts ------------------------------------------------------------ */
/* prop NULL = the property being checked.  Never returns. */
void sim_fail(const char *prop, const char *cls, const char *fmt, ...)
	__attribute__((noreturn, format(printf, 3, 4)));
/* give up on this run without a verdict (scope of the property left) */
void sim_discard(const char *why) __attribute__((noreturn));
/* polled by harnesses after library calls: raises SANITIZER if a report fired */
void sim_check_sanitizer(void);

/* ---- reach measurement --------------------------------------------------- */
void sim_fault(int kind);
void sim_probe(int id);
void sim_ops(unsigned n);
void sim_ticks(uint64_t n);

/* ---- step budget (HANG detection) ----------------------------------------- */
void sim_budget(uint64_t steps);	/* (re)arm the budget for the next call     */
void sim_step(void);			/* consume one step; HANG when exhausted    */

/* ---- configuration -------------------------------------------------------- */
const char *sim_prop(void);		/* property being checked, e.g. "C01"      */
bool sim_prop_is(const char *p);
bool sim_thorough(void);
uint64_t sim_run_index(void);

/* ---- library restart ------------------------------------------------------ */
void sim_lib_restart(void);		/* done automatically before every run     */
volatile uint32_t *sim_lib_find_counter(void (*tick)(void));
uint64_t sim_lib_data_hash(void);
bool sim_in_lib_text(const void *pc);
bool sim_in_lib_data(const void *p, size_t len);

/* exact-size heap block with the property that one byte beyond faults (asan)
 * or is a guard (sim).  Freed automatically at the end of the run. */
void *sim_alloc(size_t len);
void *sim_alloc_guarded(size_t len, size_t guard, uint8_t pattern);
void sim_check_guards(void);		/* GUARD violation if a guard byte changed  */

/* output sink (fopencookie) owned by the simulator */
#include <stdio.h>
FILE *sim_sink_open(void);
const char *sim_sink_text(size_t *len);
void sim_sink_reset(void);
void sim_sink_set_faults(unsigned short_write_per_1000, unsigned error_per_1000);

/* allocation failure injection (only in harnesses linked with --wrap=malloc) */
void sim_alloc_fail_next(int nth);	/* fail the nth malloc from now (0 = off)   */
int sim_alloc_fail_fired(void);

extern uint32_t sim_clock;
extern int (*sim_usleep_hook)(unsigned int usec);	/* usleep() as called by posix/fibre_posix.c */		/* what time_now() returns */

int sim_main(int argc, char **argv);
/* inside very long regular phases: events are still hashed but not written to the trace text */
void sim_trace_mute(bool on);

/* Calls of the API under test name the function directly and pass argument expressions whose
 * evaluations are counted: an entry point (re)implemented as a macro must evaluate each argument
 * exactly once.  ONCE(n, call) for statements, ONCE_V(n, call) for calls whose value is used;
 * inside the call every argument is written ARG(expression). */
extern unsigned sim_arg_evals;
void sim_once_check(unsigned nargs, const char *call);
#define ARG(x) (sim_arg_evals++, (x))
#define ONCE(n, call) do { sim_arg_evals = 0; call; sim_once_check((n), #call); } while (0)
#define ONCE_V(n, call) __extension__({ sim_arg_evals = 0; __typeof__(call) once_v_ = (call); sim_once_check((n), #call); once_v_; })

#endif
