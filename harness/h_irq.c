/*
 * h_irq - C06, C03(b) and the fibre part of C07: interrupt-context wake-ups
 * and fibre events arriving at any instant relative to the scheduler.
 *
 * Flavour: sim.  The scheduler (fibre.c, messageq.c, list.c) runs under a
 * discrete-event main loop with an event-handling fibre, a yielding fibre, a
 * sleeping fibre and 0-2 plain waiting fibres.  Interrupt-context calls
 * (fibre_run_atomic, fibre_eventq_claim/send) are injected
 *   irq mode: as handlers nested to depth 2 at tape-chosen scheduling points,
 *             including the interior of fibre_scheduler_next, fibre_run,
 *             fibre_kill, the drain loop and other handlers;
 *   thr mode: from 1-3 free-running sender contexts.
 * Scheduling points: every atomic operation, every library access to its own
 * data (run queue, timer queue, wake-up buffer), every access to event storage,
 * and explicit points in the fibre bodies and in the main loop.
 */
#include "sim.h"
#include "simrt.h"

#include <string.h>
#include <librfn/fibre.h>
#include <librfn/util.h>

enum { F_IRQ, F_IRQ_NESTED, F_PREEMPT, F_WAKEUP_QUEUE_FULL, F_EVENT_QUEUE_FULL, F_KILL, F_CLOCK_JUMP,
       F_STALL };
static const char *const fault_names[] = { "irq_inject", "irq_nested", "thread_preempt",
					   "wakeup_queue_full", "event_queue_full", "kill",
					   "clock_jump", "stall", NULL };
enum { P_IRQ_IN_SCHEDULER, P_IRQ_IN_RUN, P_IRQ_IN_KILL, P_IRQ_IN_BODY, P_IRQ_BETWEEN_PASSES,
       P_IRQ_AFTER_FINAL_CHECK, P_IRQ_BEFORE_FINAL_CHECK, P_PROBE_PASS, P_PROBE_PASS_DISPATCHED,
       P_SEND_REFUSED_WAKEUP, P_EVENT_WHILE_HANDLER_RUNNING, P_OBLIGATION_DISCHARGED, P_KILL_RACED_REQUEST,
       P_QUIESCED, P_QUEUE_HEALTH_CHECKED, P_TIMER_FIRED, P_MODE_IRQ, P_MODE_THR, P_OVERSLEEP_CHECKED,
       P_NESTED_SENDS_OVERLAP, P_THR_QUIET_SLEEP_VERDICT, P_LONG_MODE, P_OVER_256_EVENTS,
       P_TWO_SLEEPERS, P_MARATHON, P_FIBRE_EXITED, P_FIBRE_FAILED };
static const char *const probe_names[] = {
	"interrupt_inside_fibre_scheduler_next", "interrupt_inside_fibre_run", "interrupt_inside_fibre_kill",
	"interrupt_inside_fibre_body", "interrupt_between_passes", "request_published_after_final_check",
	"request_published_inside_pass_before_final_check", "probe_pass_after_sleep_verdict",
	"probe_pass_dispatched_excused", "event_send_refused_by_full_wakeup_queue",
	"event_sent_while_handler_running", "wakeup_obligation_discharged", "kill_overlapped_request",
	"system_quiesced", "queue_health_checked", "timer_fired", "mode_irq", "mode_threads",
	"sleep_verdict_checked_against_timers", "nested_event_sends_overlapped",
	"thread_mode_sleep_verdict_with_no_sender_active", "long_lived_scenario",
	"more_than_256_events_through_one_queue", "second_sleeping_fibre_armed_a_timeout",
	"regular_marathon_of_65536_requests_and_passes", "fibre_run_ended_by_exiting", "fibre_run_ended_by_failing", NULL };

#define NFIB 5
enum { FE, FY, FS, FW1, FW2 };
#define MAXEV 1024

typedef struct {
	uint32_t id;
	uint32_t check;
	uint32_t pat[2];
} evt_t;

/* Under the C01 check (dispatch exactly when runnable, once per reason, in arrival order) and
 * the C02 check (a cancelled timeout never causes a spurious dispatch) the scheduler-level
 * verdicts of this harness belong to the property being checked; otherwise they are C06's. */
#define OWNER (sim_prop_is("C01") ? "C01" : sim_prop_is("C02") ? "C02" : "C06")

static fibre_eventq_t *evq;
static fibre_t *fib[NFIB];		/* fib[FE] == &evq->fibre */
static uint8_t *evstore;
static uint32_t evdepth;
static int nfib;

static uint32_t now;
static bool quiescing;
static int mode;
static bool in_call_sched, in_call_run, in_call_kill;
static int in_body = -1;
static uint64_t ev;			/* harness event number */

/* per fibre bookkeeping */
static struct {
	uint32_t dispatches, reasons;
	uint64_t oblig;			/* event number of the latest undischarged accepted request, 0 = none */
	uint32_t kills_started, kills_finished;
	bool timer_known;		/* harness knows a pending timeout          */
	bool timer_uncertain;		/* ... but something may have cancelled it  */
	uint32_t due;
	uint32_t yields_left;
	uint64_t last_entry;
	uint64_t latest_pub_seq;	/* scheduling point of the latest accepted request's publication */
} B[NFIB];

/* events */
static struct {
	uint64_t claim_inv, send_ret;
	bool sent_ok, send_done, received;
} E[MAXEV];
static uint32_t n_events;
static uint32_t n_received_events;

/* identification of the publishing address and of the final check */
static uintptr_t pub_addr;

static int last_dispatched;		/* set by bodies */
static int dispatch_count_in_pass;

/* ---- fibre bodies --------------------------------------------------------- */

static void body_enter(int x)
{
	ev++;
	B[x].dispatches++;
	B[x].last_entry = ev;
	last_dispatched = x;
	dispatch_count_in_pass++;
	in_body = x;
	if (!in_call_sched)
		sim_fail(OWNER, "QUEUE_CORRUPT:dispatch_outside_pass", "fibre %d invoked outside fibre_scheduler_next", x);
	if (B[x].oblig && B[x].oblig < ev) {
		B[x].oblig = 0;
		sim_probe(P_OBLIGATION_DISCHARGED);
	}
	B[x].timer_known = false;
	sim_ev("enter", x, B[x].dispatches, 0);
	if (x != FY && B[x].dispatches > B[x].reasons)
		sim_fail(OWNER, "EXTRA_DISPATCH",
			 "fibre %d was dispatched %u times but only %u reason(s) (initial run, fibre_run calls, accepted atomic requests, timeouts) were ever issued",
			 x, B[x].dispatches, B[x].reasons);
}

static uint32_t how_ended;

static int handler_fibre(fibre_t *f)
{
	static evt_t *evt;
	PT_BEGIN_FIBRE(f);
	for (;;) {
		body_enter(FE);
		for (;;) {
			/* only this fibre takes events out, so "not empty" can only stay true until it does */
			bool said_empty = fibre_eventq_empty(evq);
			simrt_point();
			evt = fibre_eventq_receive(evq);
			simrt_point();		/* an interrupt can land between the failed receive and the return */
			if (!evt && !said_empty)
				sim_fail("C06", "EVENTQ_EMPTY", "fibre_eventq_empty said an event was waiting but the receive that followed returned nothing");
			if (!evt)
				break;
			evt_t copy;
			shim_copy_out((uint8_t *)&copy, (volatile uint8_t *)evt, sizeof(copy));
			ev++;
			sim_ev("event", copy.id, 0, 0);
			if (copy.id >= n_events || copy.check != ~copy.id ||
			    copy.pat[0] != copy.id * 2654435761u || copy.pat[1] != (copy.id ^ 0x5a5a5a5au))
				sim_fail("C06", "EVENT_CORRUPT", "handler received an event that nobody sent intact (id field %u)", copy.id);
			if (E[copy.id].received)
				sim_fail("C06", "EVENT_DUP", "event %u was delivered twice", copy.id);
			/* every event whose send had returned before this one was even claimed must be here already */
			for (uint32_t k = 0; k < n_events; k++)
				if (k != copy.id && E[k].send_done && !E[k].received &&
				    E[k].send_ret < E[copy.id].claim_inv)
					sim_fail("C06", "EVENT_ORDER", "event %u was delivered before event %u, whose send had returned before %u was claimed",
						 copy.id, k, copy.id);
			E[copy.id].received = true;
			n_received_events++;
			simrt_point();
			fibre_eventq_release(evq, evt);
			simrt_point();
		}
		in_body = -1;
		how_ended = quiescing ? 0 : sim_choose(10);
		if (how_ended == 8) {
			sim_probe(P_FIBRE_EXITED);
			PT_EXIT();
		}
		if (how_ended == 9) {
			sim_probe(P_FIBRE_FAILED);
			PT_FAIL();	/* say, the last event was malformed */
		}
		PT_WAIT();
	}
	PT_END();
}

static int yielding_fibre(fibre_t *f)
{
	PT_BEGIN_FIBRE(f);
	for (;;) {
		body_enter(FY);
		simrt_point();
		in_body = -1;
		if (!quiescing && B[FY].yields_left > 0) {
			B[FY].yields_left--;
			PT_YIELD();
		} else {
			B[FY].yields_left = 1 + (B[FY].dispatches % 3);
			PT_WAIT();
		}
	}
	PT_END();
}

static uint32_t sleep_delta, sleep_delta2;
static bool w1_sleeps;		/* the first waiting fibre is a second sleeper in this run */

static void arm_timeout(int x, uint32_t delta)
{
	uint32_t due = now + delta;
	bool expired = fibre_timeout(due);
	ev++;
	sim_ev("timeout", (int32_t)delta, expired, x);
	if (!expired) {
		B[x].timer_known = true;
		B[x].timer_uncertain = false;
		B[x].due = due;
		B[x].reasons++;
	} else {
		sim_fail("C02", "TIMEOUT_RET", "fibre_timeout(now+%u) returned true", delta);
	}
}

static int sleeping_fibre(fibre_t *f)
{
	PT_BEGIN_FIBRE(f);
	for (;;) {
		body_enter(FS);
		if (!quiescing)
			arm_timeout(FS, sleep_delta);
		simrt_point();
		in_body = -1;
		PT_WAIT();
	}
	PT_END();
}

static int waiting_fibre(fibre_t *f)
{
	int x = f == fib[FW1] ? FW1 : FW2;
	PT_BEGIN_FIBRE(f);
	for (;;) {
		body_enter(x);
		if (x == FW1 && w1_sleeps && !quiescing) {
			arm_timeout(FW1, sleep_delta2);
			sim_probe(P_TWO_SLEEPERS);
		}
		simrt_point();
		in_body = -1;
		/* a run may also end by exiting or failing: the fibre then starts from its beginning
		 * the next time there is a reason to run it */
		how_ended = quiescing ? 0 : sim_choose(8);
		if (how_ended == 6) {
			sim_probe(P_FIBRE_EXITED);
			PT_EXIT();
		}
		if (how_ended == 7) {
			sim_probe(P_FIBRE_FAILED);
			PT_FAIL();
		}
		PT_WAIT();
	}
	PT_END();
}

/* ---- interrupt-context actions --------------------------------------------- */

static uint32_t ctx_calls_in_flight, ctx_calls_started;	/* interrupt-context calls, any kind */

static void note_where(void)
{
	if (in_body >= 0)
		sim_probe(P_IRQ_IN_BODY);
	else if (in_call_sched)
		sim_probe(P_IRQ_IN_SCHEDULER);
	else if (in_call_run)
		sim_probe(P_IRQ_IN_RUN);
	else if (in_call_kill)
		sim_probe(P_IRQ_IN_KILL);
	else
		sim_probe(P_IRQ_BETWEEN_PASSES);
}

/* the address the request publication targets: the last RMW of an accepted fibre_run_atomic */
static void learn_pub(uint32_t alog_from, int x)
{
	for (uint32_t i = simrt_alog_len(); i-- > alog_from; ) {
		const simrt_alog_t *a = simrt_alog(i);
		if (a->kind == 2 && a->ctx == simrt_self() && a->depth == simrt_irq_depth()) {
			if (!pub_addr)
				pub_addr = a->addr;
			if (a->addr == pub_addr && x >= 0)
				B[x].latest_pub_seq = a->seq;
			return;
		}
	}
}

static void ctx_run_atomic(int x)
{
	uint32_t a0 = simrt_alog_len();
	uint32_t kf = B[x].kills_finished;
	ctx_calls_in_flight++;
	ctx_calls_started++;
	sim_ev("atomic.inv", x, 0, 0);
	bool ok = fibre_run_atomic(fib[x]);
	ev++;
	sim_ev("atomic.ret", x, ok, 0);
	sim_ops(1);
	if (ok) {
		learn_pub(a0, x);
		B[x].reasons++;
		B[x].timer_uncertain = true;
		if (B[x].kills_started > kf)
			sim_probe(P_KILL_RACED_REQUEST);	/* overlaps a kill: optional */
		else
			B[x].oblig = ev;
	} else {
		sim_fault(F_WAKEUP_QUEUE_FULL);
	}
	ctx_calls_in_flight--;
}

static int sends_in_flight;
static bool long_mode;
static uint32_t evdepth_override, calls_left;

static void ctx_send_event(void)
{
	if (n_events >= MAXEV)
		return;
	uint64_t inv = ++ev;
	ctx_calls_in_flight++;
	ctx_calls_started++;
	sim_ev("evclaim.inv", 0, 0, 0);
	if (sends_in_flight)
		sim_probe(P_NESTED_SENDS_OVERLAP);
	sends_in_flight++;
	evt_t *p = fibre_eventq_claim(evq);
	sim_ops(1);
	if (!p) {
		sends_in_flight--;
		ctx_calls_in_flight--;
		sim_fault(F_EVENT_QUEUE_FULL);
		sim_ev("evclaim.ret", -1, 0, 0);
		return;
	}
	uint32_t id = n_events++;
	if (id == 257)
		sim_probe(P_OVER_256_EVENTS);
	E[id].claim_inv = inv;
	E[id].send_done = E[id].sent_ok = E[id].received = false;
	evt_t v = { id, ~id, { id * 2654435761u, id ^ 0x5a5a5a5au } };
	sim_ev("evclaim.ret", id, 0, 0);
	simrt_point();
	shim_copy_in((volatile uint8_t *)p, (const uint8_t *)&v, sizeof(v));
	simrt_point();
	if (in_body == FE)
		sim_probe(P_EVENT_WHILE_HANDLER_RUNNING);
	uint32_t a0 = simrt_alog_len();
	bool ok = fibre_eventq_send(evq, p);
	ev++;
	sends_in_flight--;
	E[id].send_done = true;
	E[id].sent_ok = ok;
	E[id].send_ret = ev;
	sim_ev("evsend.ret", id, ok, 0);
	sim_ops(1);
	if (ok) {
		learn_pub(a0, FE);
		B[FE].reasons++;
		B[FE].oblig = ev;
	} else {
		sim_fault(F_WAKEUP_QUEUE_FULL);
		sim_probe(P_SEND_REFUSED_WAKEUP);
	}
	ctx_calls_in_flight--;
}

static void ctx_action(void)
{
	uint32_t k = sim_choose(5);
	if (long_mode && k < 3 && sim_choose(4))
		k = 3;	/* mostly events */
	if (k >= 3)
		ctx_send_event();
	else
		ctx_run_atomic(sim_choose(nfib));
}

static void irq_handler(int depth)
{
	sim_fault(depth > 1 ? F_IRQ_NESTED : F_IRQ);
	note_where();
	ctx_action();
}

static uint32_t sender_actions[3];
static uint32_t senders_done, nsenders;

static void sender_ctx(void *arg)
{
	uint32_t s = (uint32_t)(uintptr_t)arg;
	for (uint32_t i = 0; i < sender_actions[s]; i++) {
		ctx_action();
		simrt_point();
	}
	senders_done++;
}

/* ---- the main loop --------------------------------------------------------- */

typedef struct {
	uint32_t wake;
	int dispatched;
	uint64_t final_check_seq;	/* 0 = the call never looked at the publish address */
	uint64_t start_seq;
	uint64_t start_ev;
} pass_t;

static pass_t do_pass(void)
{
	pass_t r;
	uint32_t a0 = simrt_alog_len();
	last_dispatched = -1;
	dispatch_count_in_pass = 0;
	r.start_seq = simrt_points();
	r.start_ev = ev;
	uint32_t started0 = ctx_calls_started, inflight0 = ctx_calls_in_flight;
	in_call_sched = true;
	sim_ev("pass", (int32_t)now, 0, 0);
	r.wake = fibre_scheduler_next(now);
	in_call_sched = false;
	in_body = -1;
	ev++;
	r.dispatched = last_dispatched;
	r.final_check_seq = 0;
	if (dispatch_count_in_pass > 1)
		sim_fail(OWNER, "QUEUE_CORRUPT:two_dispatches", "one fibre_scheduler_next call dispatched %d fibres", dispatch_count_in_pass);
	if (pub_addr)
		for (uint32_t i = simrt_alog_len(); i-- > a0; ) {
			const simrt_alog_t *a = simrt_alog(i);
			if (a->addr == pub_addr && a->ctx == simrt_self() && a->depth == 0) {
				r.final_check_seq = a->seq;
				break;
			}
		}
	sim_ev("pass.ret", r.dispatched, (int32_t)(r.wake - now), 0);
	sim_ops(1);
	/* Black-box form of "never oversleeps / never lost": a request that had been accepted
	 * before this call even began is, on return, either dispatched, or still queued - and
	 * then the scheduler must not tell the main loop to sleep.  (Not applied to free-running
	 * threads while any sender is inside an interrupt-context call: a sender stalled between
	 * claim and send legitimately hides later requests from the scheduler's emptiness test.
	 * It IS applied to a pass during which no such call was in flight or began.) */
	bool quiet_pass = inflight0 == 0 && ctx_calls_started == started0;	/* threads: no sender active at all */
	if (mode == SIMRT_THR && quiet_pass && r.wake != now)
		sim_probe(P_THR_QUIET_SLEEP_VERDICT);
	if ((mode == SIMRT_IRQ || quiet_pass) && r.wake != now)
		for (int x = 0; x < nfib; x++)
			if (B[x].oblig && B[x].oblig <= r.start_ev)
				sim_fail(sim_prop_is("C03") ? "C03" : OWNER,
					 sim_prop_is("C03") ? "WAKEUP_MISSED_IRQ:stuck" : "LOST_WAKEUP:stuck",
					 "fibre_scheduler_next(0x%08x) returned 0x%08x (sleep) although the request for fibre %d accepted at event %llu, before the call began at event %llu, has neither been dispatched nor withdrawn",
					 now, r.wake, x, (unsigned long long)B[x].oblig, (unsigned long long)r.start_ev);
	if (r.dispatched == FS && B[FS].dispatches > 1)
		sim_probe(P_TIMER_FIRED);
	return r;
}

static void main_run(int x)
{
	in_call_run = true;
	sim_ev("run", x, 0, 0);
	fibre_run(fib[x]);
	in_call_run = false;
	ev++;
	B[x].reasons++;
	B[x].timer_uncertain = true;
	sim_ops(1);
}

static void main_kill(int x)
{
	/* a kill invoked now withdraws everything accepted before; what overlaps it is optional */
	B[x].oblig = 0;
	B[x].kills_started++;
	in_call_kill = true;
	sim_ev("kill", x, 0, 0);
	(void)fibre_kill(fib[x]);
	in_call_kill = false;
	B[x].kills_finished++;
	B[x].timer_known = false;
	ev++;
	sim_fault(F_KILL);
	sim_ops(1);
}

/* after a verdict "sleep until wake": nothing may be runnable or overdue */
static void check_sleep_verdict(const pass_t *p, bool probe)
{
	if (p->wake == now)
		return;
	/* no known pending timeout may lie before the returned time */
	for (int x = 0; x < nfib; x++)
		if (B[x].timer_known && !B[x].timer_uncertain) {
			sim_probe(P_OVERSLEEP_CHECKED);
			if ((int32_t)(p->wake - B[x].due) > 0)
				sim_fail("C03", "OVERSLEPT",
					 "fibre_scheduler_next(0x%08x) returned 0x%08x but fibre %d has a timeout pending at 0x%08x",
					 now, p->wake, x, B[x].due);
		}
	if (!probe)
		return;
	/* a spurious wake-up at the same instant, with interrupts held off */
	uint32_t fired0 = simrt_switches();
	simrt_irq_mask(true);
	sim_probe(P_PROBE_PASS);
	pass_t q = do_pass();
	simrt_irq_mask(false);
	(void)fired0;
	if (q.dispatched >= 0) {
		int f = q.dispatched;
		/* only a request published after the first pass's final look at the wake-up queue excuses this */
		bool excused = p->final_check_seq == 0 || B[f].latest_pub_seq > p->final_check_seq;
		if (!excused)
			sim_fail("C03", "WAKEUP_MISSED_IRQ",
				 "fibre_scheduler_next(0x%08x) said sleep until 0x%08x, yet fibre %d was runnable: its request was published at scheduling point %llu, before the scheduler's final check at point %llu",
				 now, p->wake, f, (unsigned long long)B[f].latest_pub_seq,
				 (unsigned long long)p->final_check_seq);
		sim_probe(P_PROBE_PASS_DISPATCHED);
	}
}

static void classify_pub(const pass_t *p)
{
	for (int x = 0; x < nfib; x++)
		if (p->final_check_seq && B[x].latest_pub_seq) {
			if (B[x].latest_pub_seq > p->final_check_seq)
				sim_probe(P_IRQ_AFTER_FINAL_CHECK);
			else if (B[x].latest_pub_seq > p->start_seq)
				sim_probe(P_IRQ_BEFORE_FINAL_CHECK);
		}
}

static void main_loop(bool probe_passes, uint32_t iters)
{
	for (uint32_t it = 0; it < iters; it++) {
		if (!sim_replaying() || !sim_tape_done()) {
			uint32_t op = sim_choose(8);
			if (op == 1)
				main_run(1 + sim_choose(nfib - 1));
			else if (op == 2)
				main_kill(1 + sim_choose(nfib - 1));	/* never the event handler */
			else if (op == 3)
				main_run(FE);
		}
		if (mode == SIMRT_IRQ && calls_left && !simrt_irq_pending()) {
			uint32_t n = calls_left > 32 ? 32 : calls_left;
			calls_left -= n;
			simrt_irq_plan(n, 1 + sim_choose(40));
		}
		uint32_t sw0 = simrt_switches();
		pass_t p = do_pass();
		classify_pub(&p);
		if (mode == SIMRT_IRQ)
			check_sleep_verdict(&p, probe_passes && sim_choose(2));
		simrt_point();		/* an interrupt may land between the return and the sleep */
		if (p.wake != now && simrt_switches() == sw0) {
			/* sleep: jump the clock (bounded so pending interrupts still find work) */
			uint32_t adv = p.wake - now;
			if (adv > 100000 && (simrt_irq_pending() || senders_done < nsenders))
				adv = 1 + sim_choose(1000);
			if (adv > 1000)
				sim_fault(F_CLOCK_JUMP);
			now += adv;
			sim_clock = now;
			sim_ticks(adv);
		} else if (p.wake == now) {
			/* time passes while fibres keep the processor busy, too: a timeout can fall due
			 * in a pass that also requeues a yielder and drains interrupt requests */
			uint32_t adv = sim_choose(4);
			now += adv;
			sim_clock = now;
			sim_ticks(adv);
		}
		if (mode == SIMRT_THR && senders_done == nsenders && p.dispatched < 0)
			break;
		if (mode == SIMRT_IRQ && !simrt_irq_pending() && !calls_left && p.dispatched < 0 && it > 4)
			break;
	}
}

static void mainloop_ctx(void *arg)
{
	(void)arg;
	main_loop(false, long_mode ? 20000 : 400);
}

static void run(void)
{
	bool races = sim_prop_is("C07");
	bool c03 = sim_prop_is("C03");
	mode = races ? SIMRT_THR : c03 ? SIMRT_IRQ : (sim_choose(3) ? SIMRT_IRQ : SIMRT_THR);
	nfib = 3 + sim_choose(3);
	evdepth = 1 + sim_choose(8);
	uint32_t ncalls = 1 + sim_choose(24);
	long_mode = sim_chance(1, 40);
	if (long_mode) {
		/* a long-lived system: hundreds of events through an event queue whose depth does not
		 * divide 256, so 8-bit cursors and counters inside the queues wrap */
		static const uint8_t odd[] = { 3, 5, 6, 7 };
		evdepth_override = odd[sim_choose(4)];
		calls_left = 280 + sim_choose(400);
		sim_probe(P_LONG_MODE);
	} else {
		evdepth_override = 0;
		calls_left = 0;
	}
	uint32_t burst = sim_choose(3) == 0 ? 6 + sim_choose(5) : 0;	/* back-to-back interrupts that fill the wake-up queue */
	uint32_t max_gap = 1 + sim_choose(sim_choose(3) ? 16 : 120);
	static const uint32_t bases[] = { 0, 1000, 0x7ffffff0u, 0xfffffff0u, 0xffffff00u };
	now = bases[sim_choose(5)] + sim_choose(16);
	sleep_delta = 1 + sim_choose(sim_choose(2) ? 8 : 5000);
	sleep_delta2 = 1 + sim_choose(sim_choose(2) ? 40 : 5000);
	w1_sleeps = sim_choose(2);
	bool marathon = mode == SIMRT_IRQ && sim_chance(1, 1500);
	int strat = sim_choose(SIMRT_NSTRAT);
	uint32_t sparam = strat == SIMRT_STRAT_PCT ? 1 + sim_choose(4) :
			  strat == SIMRT_STRAT_KPREEMPT ? 1 + sim_choose(3) : 1 + sim_choose(4);
	bool probe_passes = c03 || sim_chance(1, 4);
	if (evdepth_override)
		evdepth = evdepth_override;
	sim_ev("hdr", mode, nfib * 100 + evdepth, ncalls);
	sim_clock = now;

	memset(B, 0, sizeof(B));
	memset(E, 0, sizeof(E));
	n_events = n_received_events = 0;
	quiescing = false;
	in_call_sched = in_call_run = in_call_kill = false;
	in_body = -1;
	ev = 0;
	pub_addr = 0;
	sends_in_flight = 0;
	ctx_calls_in_flight = ctx_calls_started = 0;
	senders_done = 0;
	nsenders = 0;

	evq = sim_alloc_guarded(sizeof(*evq), 16, 0x3c);
	evstore = sim_alloc_guarded(evdepth * sizeof(evt_t), 32, 0xc3);
	simrt_region_add(evq, sizeof(*evq), SIMRT_SHARED, "event-fibre-descriptor");
	simrt_region_add(evstore, evdepth * sizeof(evt_t), SIMRT_SHARED, "event-storage");
	if (sim_choose(2)) {
		fibre_eventq_init(evq, handler_fibre, evstore, evdepth * sizeof(evt_t), sizeof(evt_t));
	} else {
		/* the static initialiser (with run-time values) describes the same event queue */
		fibre_eventq_t init = FIBRE_EVENTQ_VAR_INIT(handler_fibre, evstore, evdepth * sizeof(evt_t), sizeof(evt_t));
		memcpy(evq, &init, sizeof(init));
	}
	fib[FE] = &evq->fibre;
	fibre_entrypoint_t *fns[NFIB] = { handler_fibre, yielding_fibre, sleeping_fibre, waiting_fibre, waiting_fibre };
	for (int x = 1; x < nfib; x++) {
		fib[x] = sim_alloc_guarded(sizeof(fibre_t), 16, 0x99);
		simrt_region_add(fib[x], sizeof(fibre_t), SIMRT_PRIVATE, "fibre-descriptor");
		fibre_init(fib[x], fns[x]);
	}
	simrt_bounds(true);
	simrt_libdata_points(true);
	sim_budget(long_mode ? 60000000 : 3000000);
	B[FY].yields_left = 2;
	for (int x = 0; x < nfib; x++) {
		fibre_run(fib[x]);
		B[x].reasons = 1;
	}

	sim_seg();	/* the schedule */
	if (mode == SIMRT_IRQ) {
		sim_probe(P_MODE_IRQ);
		simrt_mode(SIMRT_IRQ);
		simrt_irq_handler(irq_handler, 2);
		simrt_irq_plan(ncalls, max_gap);
		for (uint32_t i = 1; i < burst && i < ncalls; i++)
			simrt_irq_set_gap(i, 0);
		for (uint32_t i = burst; burst && i < ncalls; i++)
			simrt_irq_set_gap(i, sim_choose(10));
		main_loop(probe_passes, long_mode ? 4000 : 120);
		simrt_irq_mask(true);
	} else {
		sim_probe(P_MODE_THR);
		simrt_mode(SIMRT_THR);
		simrt_races(races);	/* the race detector decides C07 only; elsewhere the functional oracles must see the consequences */
		simrt_strategy(strat, sparam);
		if (strat == SIMRT_STRAT_STALL)
			sim_fault(F_STALL);
		nsenders = 1 + sim_choose(3);
		for (uint32_t s = 0; s < nsenders; s++)
			sender_actions[s] = 0;
		for (uint32_t i = 0; i < ncalls; i++)
			sender_actions[sim_choose(nsenders)]++;
		if (long_mode)
			for (uint32_t s = 0; s < nsenders; s++)
				sender_actions[s] += calls_left / nsenders;
		simrt_spawn(mainloop_ctx, NULL);
		for (uint32_t s = 0; s < nsenders; s++)
			simrt_spawn(sender_ctx, (void *)(uintptr_t)s);
		simrt_run_all();
		if (simrt_switches() > nsenders + 1)
			sim_fault(F_PREEMPT);
	}
	simrt_mode(SIMRT_SEQ);

	/* ---- faults have stopped: the system must come to rest within 64 passes ---- */
	quiescing = true;
	bool idle = false;
	for (int k = 0; k < 64; k++) {
		pass_t p = do_pass();
		if (p.dispatched < 0 && p.wake == now + FIBRE_UNBOUNDED_SLEEP) {
			idle = true;
			break;
		}
		if (p.wake != now) {
			sim_ticks(p.wake - now);
			now = p.wake;
			sim_clock = now;
		}
	}
	if (!idle)
		sim_fail(OWNER, "NO_QUIESCENCE", "the scheduler did not report idle within 64 passes after the last interrupt-context call");
	sim_probe(P_QUIESCED);
	for (int x = 0; x < nfib; x++)
		if (B[x].oblig)
			sim_fail(OWNER, "LOST_WAKEUP",
				 "fibre_run_atomic for fibre %d returned true (event %llu) but the fibre was never dispatched afterwards (its last dispatch began at event %llu)",
				 x, (unsigned long long)B[x].oblig, (unsigned long long)B[x].last_entry);
	for (uint32_t k = 0; k < n_events; k++)
		if (E[k].sent_ok && !E[k].received) {
			/* A recorded finding (known_findings.txt) has its own class so that any other loss
			 * is still reported: an event whose own wake-up was refused (send returned false)
			 * sits undelivered in the queue and the lost events are stranded with it. */
			for (uint32_t r = 0; r < n_events; r++)
				if (E[r].send_done && !E[r].sent_ok && !E[r].received)
					sim_fail("C06", "EVENT_LOST:behind_refused_send",
						 "event %u was sent (fibre_eventq_send returned true) but never delivered: event %u, whose send returned false because the wake-up queue was full, is still in the queue and nothing wakes the handler for it",
						 k, r);
			sim_fail("C06", "EVENT_LOST", "event %u was sent (fibre_eventq_send returned true) but never delivered", k);
		}

	/* ---- queue health: run every fibre in a tape-chosen order, expect exactly that order ---- */
	int order[NFIB];
	for (int i = 0; i < nfib; i++)
		order[i] = i;
	for (int i = nfib - 1; i > 0; i--) {
		int j = sim_choose(i + 1);
		int t = order[i];
		order[i] = order[j];
		order[j] = t;
	}
	for (int i = 0; i < nfib; i++) {
		fibre_run(fib[order[i]]);
		B[order[i]].reasons++;
	}
	for (int i = 0; i <= nfib; i++) {
		pass_t p = do_pass();
		int want = i < nfib ? order[i] : -1;
		if (p.dispatched != want)
			sim_fail(OWNER, "QUEUE_CORRUPT:health", "after quiescence fibres were run in a known order; pass %d dispatched %d, expected %d", i, p.dispatched, want);
	}
	sim_probe(P_QUEUE_HEALTH_CHECKED);
	if (marathon) {
		/* a long-lived system, perfectly regular: one accepted interrupt-context request and one
		 * pass per iteration, so whatever the scheduler counts (drains, removals, dispatches,
		 * requests) advances by the same amount every time; a victim fibre is woken twice,
		 * 65536 iterations apart give or take its own contribution, where a wrapped 16-bit
		 * stamp or epoch would alias */
		uint32_t k = 65536 + 40 + sim_choose(32);
		uint32_t t0 = sim_choose(16), gap = 65536 + sim_choose(7) - 3;
		int victim = nfib - 1, rot = nfib - 2;	/* rotation over fibres 1..rot (never the event handler) */
		sim_probe(P_MARATHON);
		sim_ev("marathon", k, t0, gap);
		sim_trace_mute(true);
		for (uint32_t i = 0; i < k; i++) {
			int x = (i == t0 || i == t0 + gap) ? victim : 1 + (int)(i % (uint32_t)rot);
			sim_budget(3000000);
			ctx_run_atomic(x);
			pass_t p = do_pass();
			if (p.dispatched != x)
				sim_fail(OWNER, B[x].oblig ? "LOST_WAKEUP:marathon" : "EXTRA_DISPATCH:marathon",
					 "iteration %u of a long regular run: fibre_run_atomic(fibre %d) returned true and the next pass dispatched %d",
					 i, x, p.dispatched);
		}
		sim_trace_mute(false);
		sim_ev("marathon_end", 0, 0, 0);
	}
	sim_check_guards();
}

const sim_harness_t sim_harness = {
	.name = "h_irq",
	.flavour = "sim",
	.run = run,
	.fault_names = fault_names,
	.probe_names = probe_names,
	.min_ops = 6,
	.rule = "one case = one scenario (event-handling, yielding, sleeping and 0-2 waiting fibres under a "
		"discrete-event main loop that also calls fibre_run/fibre_kill) with 1-24 interrupt-context "
		"calls (one run in 40 is long-lived: 280-680 calls through an event queue of depth 3/5/6/7; "
		"one run in 3 starts with a back-to-back burst that fills the 8-deep wake-up queue) "
		"(fibre_run_atomic, fibre_eventq_claim/send) placed by the tape between any two "
		"atomic operations / library data accesses of the main context, nested to depth 2, or "
		"issued by 1-3 free-running sender contexts, followed by a fault-free run to quiescence "
		"and a queue health check; non-trivial = at least 6 calls and at least one interrupt or "
		"preemption; distinct = distinct hash of the event sequence",
	.real = "librfn/fibre.c, messageq.c, list.c, util.c, protothreads.h macros in the fibre bodies (TSan instrumentation, own runtime)",
	.stub = "main loop (posix/fibre_posix.c replaced by a discrete-event loop with the same shape), clock, interrupt sources",
};

int main(int argc, char **argv)
{
	return sim_main(argc, argv);
}
