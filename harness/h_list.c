/*
 * h_list - C09: linked list against an abstract sequence, operation by operation.
 *
 * History only (no fault dimension, stated as such in DESIGN.md).  Pool of 8
 * nodes (each its own exact-size heap block), 3 lists, 3 iterators.  The model
 * is a vector of node ids per list; an iterator is an index 0..len.  An
 * iterator is usable only while no mutation was made to its list through
 * another path (the property's scope).
 */
#include "sim.h"

#include <string.h>
#include <librfn/list.h>
#include <librfn/util.h>

enum { F_NONE };
static const char *const fault_names[] = { NULL };
enum { P_REMOVE_ONLY, P_REMOVE_LAST, P_TAIL_AFTER_REMOVE, P_HEAD_AFTER_REMOVE, P_SORTED_TIE,
       P_ITER_PAST_END, P_ITER_INSERT_END, P_ITER_REMOVE_TAIL, P_REUSE_OTHER_LIST,
       P_EXTRACT_EMPTY, P_SORTED_MIDDLE, P_BIG_LIST, P_NULL_NODE };
static const char *const probe_names[] = {
	"removed_only_node", "removed_last_node", "tail_insert_after_removal",
	"head_insert_after_removal", "sorted_insert_with_tie", "iterator_next_past_end",
	"iterator_insert_at_end", "iterator_remove_of_tail", "node_reused_in_other_list",
	"extract_from_empty", "sorted_insert_in_middle", "list_of_more_than_1000_nodes",
	"null_node_argument", NULL };

#define MAXNODES 2400
#define NLISTS 3
#define NITERS 3

typedef struct {
	list_node_t link;
	int key;
	int id;
} tnode_t;

static tnode_t *node[MAXNODES];
static int NNODES;			/* 8, or (one run in 150) a pool of more than a thousand nodes */
static bool big;
static list_t *lists;
static list_iterator_t *iters;

/* model */
static int mlen[NLISTS];
static int mseq[NLISTS][MAXNODES];
static int member_of[MAXNODES];		/* list index or -1 */
static struct { int list; int idx; bool valid; } mit[NITERS];
static bool just_removed[NLISTS];	/* last mutation of the list was a removal */

static int id_of(list_node_t *n)
{
	if (!n)
		return -1;
	tnode_t *t = containerof(n, tnode_t, link);
	if (big) {
		/* every node is its own exact-size heap block: a stray pointer is a sanitizer report */
		int i = t->id;
		if (i >= 0 && i < NNODES && node[i] == t)
			return i;
	}
	for (int i = 0; i < NNODES && !big; i++)
		if (node[i] == t)
			return i;
	sim_fail(NULL, "BAD_POINTER", "the list returned a pointer that is not one of the nodes");
}

static int keycmp(list_node_t *a, list_node_t *b)
{
	return containerof(a, tnode_t, link)->key - containerof(b, tnode_t, link)->key;
}

static void m_insert_at(int l, int idx, int id)
{
	memmove(&mseq[l][idx + 1], &mseq[l][idx], sizeof(int) * (mlen[l] - idx));
	mseq[l][idx] = id;
	mlen[l]++;
	member_of[id] = l;
}

static int m_remove_at(int l, int idx)
{
	int id = mseq[l][idx];
	memmove(&mseq[l][idx], &mseq[l][idx + 1], sizeof(int) * (mlen[l] - idx - 1));
	mlen[l]--;
	member_of[id] = -1;
	return id;
}

static int m_find(int l, int id)
{
	for (int i = 0; i < mlen[l]; i++)
		if (mseq[l][i] == id)
			return i;
	return -1;
}

static void invalidate(int l, int except)
{
	for (int i = 0; i < NITERS; i++)
		if (i != except && mit[i].list == l)
			mit[i].valid = false;
}

static bool m_sorted(int l)
{
	for (int i = 0; i + 1 < mlen[l]; i++)
		if (node[mseq[l][i]]->key > node[mseq[l][i + 1]]->key)
			return false;
	return true;
}

static void verify_all(const char *after)
{
	for (int l = 0; l < NLISTS; l++) {
		list_iterator_t it;
		int n = 0;
		sim_budget(big ? 4000000 : 200000);
		for (list_node_t *c = list_iterate(&lists[l], &it); c; c = list_iterator_next(&it)) {
			if (n >= mlen[l] + 2 || n > 2 * NNODES)
				sim_fail(NULL, "TRAVERSAL", "after %s: list %d yields more than %d nodes (cycle or stray node)",
					 after, l, mlen[l]);
			int id = id_of(c);
			if (n >= mlen[l] || id != mseq[l][n])
				sim_fail(NULL, "TRAVERSAL", "after %s: list %d position %d is node %d, model has %d (len %d)",
					 after, l, n, id, n < mlen[l] ? mseq[l][n] : -1, mlen[l]);
			n++;
		}
		if (n != mlen[l])
			sim_fail(NULL, "TRAVERSAL", "after %s: list %d yields %d nodes, model has %d", after, l, n, mlen[l]);
		if (ONCE_V(1, list_empty(ARG(&lists[l]))) != (mlen[l] == 0))
			sim_fail(NULL, "RETVAL", "after %s: list_empty(list %d) disagrees with the model", after, l);
		if (id_of(ONCE_V(1, list_peek(ARG(&lists[l])))) != (mlen[l] ? mseq[l][0] : -1))
			sim_fail(NULL, "RETVAL", "after %s: list_peek(list %d) disagrees with the model", after, l);
	}
	for (int i = 0; i < NNODES; i++)
		if (member_of[i] < 0 && node[i]->link.next)
			sim_fail(NULL, "NOT_REUSABLE", "after %s: node %d is outside all lists but its link is not cleared", after, i);
	sim_check_sanitizer();
}

static int pick_free(void)
{
	int start = sim_choose(NNODES);
	for (int k = 0; k < NNODES; k++) {
		int i = (start + k) % NNODES;
		if (member_of[i] < 0)
			return i;
	}
	return -1;
}

static int last_list_of[MAXNODES];

/* the node an operation names: any node of the pool; in a big pool usually one picked by its
 * position in the list (around index 1024 and at both ends), else positions that deep are never named */
static int pick_any(int l)
{
	if (big && mlen[l] && sim_choose(4)) {
		static const int at[] = { 1023, 1024, 1025, 1026, 2047, 2048 };
		uint32_t k = sim_choose(9);
		int idx = k < 6 ? at[k] : k == 6 ? mlen[l] - 1 : k == 7 ? 0 : (int)sim_choose(mlen[l]);
		if (idx >= mlen[l])
			idx = mlen[l] - 1;
		return mseq[l][idx];
	}
	return sim_choose(NNODES);
}

static void note_insert(int l, int id, bool tail, bool head)
{
	if (just_removed[l] && tail)
		sim_probe(P_TAIL_AFTER_REMOVE);
	if (just_removed[l] && head)
		sim_probe(P_HEAD_AFTER_REMOVE);
	if (last_list_of[id] >= 0 && last_list_of[id] != l)
		sim_probe(P_REUSE_OTHER_LIST);
	last_list_of[id] = l;
	just_removed[l] = false;
}

static void note_remove(int l, int idx_removed, int len_before)
{
	if (len_before == 1)
		sim_probe(P_REMOVE_ONLY);
	else if (idx_removed == len_before - 1)
		sim_probe(P_REMOVE_LAST);
	just_removed[l] = true;
}

enum { O_INSERT, O_PUSH, O_SORTED, O_EXTRACT, O_REMOVE, O_CONTAINS, O_CONTAINS_IT, O_ITERATE,
       O_NEXT, O_IT_INSERT, O_IT_REMOVE, O_NULL, O_NOPS };
static const char *const opname[] = { "insert", "push", "insert_sorted", "extract", "remove",
				      "contains", "contains_iter", "iterate", "iter_next",
				      "iter_insert", "iter_remove", "null_node" };

static void run(void)
{
	big = sim_chance(1, 150);
	NNODES = big ? 1030 + sim_choose(MAXNODES - 1030) : 8;
	for (int i = 0; i < NNODES; i++) {
		node[i] = sim_alloc(sizeof(tnode_t));
		node[i]->id = i;
		member_of[i] = -1;
		last_list_of[i] = -1;
	}
	lists = sim_alloc(sizeof(list_t) * NLISTS);	/* zero = LIST_VAR_INIT */
	iters = sim_alloc(sizeof(list_iterator_t) * NITERS);
	memset(mlen, 0, sizeof(mlen));
	memset(mit, 0, sizeof(mit));
	memset(just_removed, 0, sizeof(just_removed));

	uint32_t nops = 1 + sim_choose(40);
	uint32_t nlists = 1 + sim_choose(NLISTS);
	bool sorted_only = sim_chance(1, 5);	/* a run that keeps list 0 sorted throughout */
	sim_ev("hdr", nops, nlists, sorted_only);
	if (big) {
		/* a long list to start from: lengths around 1024 and the whole pool */
		static const int fills[] = { 1023, 1024, 1025, 1026, 1500 };
		uint32_t k = sim_choose(7);
		int fill = k < 5 ? fills[k] : k == 5 ? NNODES - 1 : NNODES - 9;
		bool pushes = sim_choose(2);
		sim_probe(P_BIG_LIST);
		for (int i = 0; i < fill && i < NNODES; i++) {
			node[i]->key = sorted_only ? (pushes ? (fill - i) / 700 : i / 700) : 0;
			if (pushes) {
				list_push(&lists[0], &node[i]->link);
				m_insert_at(0, 0, i);
			} else {
				list_insert(&lists[0], &node[i]->link);
				m_insert_at(0, mlen[0], i);
			}
			last_list_of[i] = 0;
		}
		verify_all("prefill");
	}

	for (uint32_t step = 0; step < nops && !sim_tape_done(); step++) {
		sim_seg();
		int op = sim_choose(O_NOPS);
		int l = sim_choose(nlists);
		int itn = sim_choose(NITERS);
		int id, idx, want, got;
		bool b;
		if (sorted_only && l == 0 && (op == O_INSERT || op == O_PUSH || op == O_IT_INSERT))
			op = O_SORTED;
		sim_budget(big ? 4000000 : 200000);
		switch (op) {
		case O_INSERT:
			if ((id = pick_free()) < 0)
				goto contains;
			ONCE(2, list_insert(ARG(&lists[l]), ARG(&node[id]->link)));
			m_insert_at(l, mlen[l], id);
			invalidate(l, -1);
			note_insert(l, id, true, mlen[l] == 1);
			sim_ev("insert", l, id, 0);
			break;
		case O_PUSH:
			if ((id = pick_free()) < 0)
				goto contains;
			ONCE(2, list_push(ARG(&lists[l]), ARG(&node[id]->link)));
			m_insert_at(l, 0, id);
			invalidate(l, -1);
			note_insert(l, id, mlen[l] == 1, true);
			sim_ev("push", l, id, 0);
			break;
		case O_SORTED:
			if ((id = pick_free()) < 0 || !m_sorted(l))
				goto contains;
			node[id]->key = sim_choose(4);
			ONCE(3, list_insert_sorted(ARG(&lists[l]), ARG(&node[id]->link), ARG(keycmp)));
			for (idx = 0; idx < mlen[l] && node[mseq[l][idx]]->key <= node[id]->key; idx++)
				;
			if (idx > 0 && node[mseq[l][idx - 1]]->key == node[id]->key)
				sim_probe(P_SORTED_TIE);
			if (idx > 0 && idx < mlen[l])
				sim_probe(P_SORTED_MIDDLE);
			m_insert_at(l, idx, id);
			invalidate(l, -1);
			note_insert(l, id, idx == mlen[l] - 1, idx == 0);
			sim_ev("sorted", l, id, node[id]->key);
			break;
		case O_EXTRACT:
			got = id_of(ONCE_V(1, list_extract(ARG(&lists[l]))));
			want = mlen[l] ? mseq[l][0] : -1;
			if (!mlen[l])
				sim_probe(P_EXTRACT_EMPTY);
			if (got != want)
				sim_fail(NULL, "RETVAL", "list_extract(list %d) returned node %d, model %d", l, got, want);
			if (mlen[l]) {
				note_remove(l, 0, mlen[l]);
				m_remove_at(l, 0);
				invalidate(l, -1);
			}
			sim_ev("extract", l, got, 0);
			break;
		case O_REMOVE:
			id = pick_any(l);
			b = ONCE_V(2, list_remove(ARG(&lists[l]), ARG(&node[id]->link)));
			idx = m_find(l, id);
			if (b != (idx >= 0))
				sim_fail(NULL, "RETVAL", "list_remove(list %d, node %d) returned %d, model %d", l, id, b, idx >= 0);
			if (idx >= 0) {
				note_remove(l, idx, mlen[l]);
				m_remove_at(l, idx);
				invalidate(l, -1);
			}
			sim_ev("remove", l, id, b);
			break;
		contains:
		case O_CONTAINS:
			id = pick_any(l);
			b = ONCE_V(3, list_contains(ARG(&lists[l]), ARG(&node[id]->link), ARG(NULL)));
			if (b != (m_find(l, id) >= 0))
				sim_fail(NULL, "RETVAL", "list_contains(list %d, node %d) returned %d", l, id, b);
			sim_ev("contains", l, id, b);
			op = O_CONTAINS;
			break;
		case O_CONTAINS_IT:
			id = pick_any(l);
			b = ONCE_V(3, list_contains(ARG(&lists[l]), ARG(&node[id]->link), ARG(&iters[itn])));
			idx = m_find(l, id);
			if (b != (idx >= 0))
				sim_fail(NULL, "RETVAL", "list_contains(list %d, node %d, iter) returned %d", l, id, b);
			mit[itn].list = l;
			mit[itn].idx = idx >= 0 ? idx : mlen[l];
			mit[itn].valid = true;
			sim_ev("contains_it", l, id, b);
			break;
		case O_ITERATE:
			got = id_of(ONCE_V(2, list_iterate(ARG(&lists[l]), ARG(&iters[itn]))));
			want = mlen[l] ? mseq[l][0] : -1;
			if (got != want)
				sim_fail(NULL, "RETVAL", "list_iterate(list %d) returned node %d, model %d", l, got, want);
			mit[itn].list = l;
			mit[itn].idx = 0;
			mit[itn].valid = true;
			sim_ev("iterate", l, itn, got);
			break;
		case O_NEXT:
			if (!mit[itn].valid)
				goto contains;
			l = mit[itn].list;
			got = id_of(ONCE_V(1, list_iterator_next(ARG(&iters[itn]))));
			if (mit[itn].idx < mlen[l])
				mit[itn].idx++;
			else
				sim_probe(P_ITER_PAST_END);
			want = mit[itn].idx < mlen[l] ? mseq[l][mit[itn].idx] : -1;
			if (got != want)
				sim_fail(NULL, "ITER_POS", "list_iterator_next on list %d returned node %d, model %d (index %d of %d)",
					 l, got, want, mit[itn].idx, mlen[l]);
			sim_ev("next", l, itn, got);
			break;
		case O_IT_INSERT:
			if (!mit[itn].valid || (id = pick_free()) < 0)
				goto contains;
			l = mit[itn].list;
			if (sorted_only && l == 0)
				goto contains;
			ONCE(2, list_iterator_insert(ARG(&iters[itn]), ARG(&node[id]->link)));
			if (mit[itn].idx == mlen[l])
				sim_probe(P_ITER_INSERT_END);
			m_insert_at(l, mit[itn].idx, id);
			invalidate(l, itn);
			note_insert(l, id, mit[itn].idx == mlen[l] - 1, mit[itn].idx == 0);
			sim_ev("it_insert", l, itn, id);
			break;
		case O_IT_REMOVE:
			if (!mit[itn].valid || mit[itn].idx >= mlen[mit[itn].list])
				goto contains;	/* scope: not past the end */
			l = mit[itn].list;
			got = id_of(ONCE_V(1, list_iterator_remove(ARG(&iters[itn]))));
			if (mit[itn].idx == mlen[l] - 1)
				sim_probe(P_ITER_REMOVE_TAIL);
			note_remove(l, mit[itn].idx, mlen[l]);
			m_remove_at(l, mit[itn].idx);
			want = mit[itn].idx < mlen[l] ? mseq[l][mit[itn].idx] : -1;
			if (got != want)
				sim_fail(NULL, "RETVAL", "list_iterator_remove on list %d returned node %d, model %d", l, got, want);
			invalidate(l, itn);
			sim_ev("it_remove", l, itn, got);
			break;
		case O_NULL:
			/* no sequence contains "no node": not found, the iterator ends up past the end, nothing changes */
			sim_probe(P_NULL_NODE);
			switch (sim_choose(3)) {
			case 0:
				b = list_contains(&lists[l], NULL, NULL);
				break;
			case 1:
				b = list_contains(&lists[l], NULL, &iters[itn]);
				mit[itn].list = l;
				mit[itn].idx = mlen[l];
				mit[itn].valid = true;
				break;
			default:
				b = list_remove(&lists[l], NULL);
				break;
			}
			if (b)
				sim_fail(NULL, "RETVAL", "list_contains / list_remove of a NULL node on list %d (length %d) reported success", l, mlen[l]);
			sim_ev("null", l, itn, b);
			break;
		}
		sim_ops(1);
		verify_all(opname[op]);
	}
}

const sim_harness_t sim_harness = {
	.name = "h_list",
	.flavour = "asan",
	.run = run,
	.fault_names = fault_names,
	.probe_names = probe_names,
	.min_ops = 4,
	.rule = "one case = one generated history of 1-40 list operations over 8 nodes (one run in 150: "
		"1030-2400 nodes with a list prefilled to around 1024 or the whole pool and nodes named by "
		"their position), 1-3 lists and 3 iterators, including NULL node arguments, checked against a vector model after every operation (full traversal of "
		"every list, every return value, cleared links); no fault dimension exists for this "
		"property; non-trivial = at least 4 operations and at least one of the boundary shapes "
		"the property singles out (probe) occurred; distinct = distinct hash of the operation/"
		"result event sequence",
	.real = "librfn/list.c, list.h (all functions)",
	.stub = "none",
};

int main(int argc, char **argv)
{
	return sim_main(argc, argv);
}
