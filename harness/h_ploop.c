/*
 * h_ploop - C03 (c): the real POSIX main loop (librfn/posix/fibre_posix.c)
 * running on the simulated clock.
 *
 * The loop's two sources of nondeterminism are behind seams: time_now() is the
 * simulator's clock (it advances a tape-chosen few microseconds per call, the
 * cost of executing code) and usleep() is wrapped at link time (it advances the
 * clock by the requested time plus tape-chosen overrun jitter).  Fibres sleep
 * with fibre_timeout, yield, and wake each other.
 *
 * Oracle (the property's second sentence, applied to the real loop): at the
 * moment the loop decides to sleep for n microseconds, no timeout the harness
 * knows to be pending may fall due before the end of that sleep (beyond a small
 * allowance for the instructions between the scheduler's return and the call),
 * and no fibre may be runnable.
 */
#include "sim.h"

#include <setjmp.h>
#include <string.h>
#include <librfn/fibre.h>
#include <librfn/time.h>
#include <librfn/util.h>

enum { F_SLEEP_OVERRUN, F_CLOCK_WRAP, F_SLOW_CODE };
static const char *const fault_names[] = { "usleep_overrun", "clock_wrap", "slow_code_between_calls", NULL };
enum { P_SLEPT, P_SLEPT_CAPPED, P_SLEPT_SHORT, P_TIMER_FIRED, P_YIELDER_RAN,
       P_DUE_1000_50000, P_DUE_OVER_50000, P_DUE_UNDER_1000, P_WOKEN_BY_OTHER };
static const char *const probe_names[] = {
	"loop_slept", "sleep_of_50ms_or_more_requested", "sleep_under_1ms_requested", "timer_fired",
	"yielding_fibre_ran", "timeout_1ms_to_50ms_ahead",
	"timeout_over_50ms_ahead", "timeout_under_1ms_ahead", "sleeper_woken_by_another_fibre", NULL };

#define NS 3
typedef struct {
	fibre_t fibre;
	int id;
	bool pending;		/* a fibre_timeout returned false and the fibre has not run since */
	uint32_t due;
	uint32_t dispatches;
} sl_t;

static sl_t *sl[NS];
static fibre_t *yielder;
static uint32_t yields_left;
static bool yielder_runnable;	/* it yielded: the scheduler must run it again without sleeping */
static uint32_t code_cost;	/* microseconds the clock advances per time_now() call */
static uint32_t jitter_per_1000;
static uint32_t loop_iterations, max_iterations;
static jmp_buf loop_exit;
static int nsl;

uint32_t time_now(void)
{
	sim_clock += code_cost ? sim_choose(code_cost + 1) : 0;
	return sim_clock;
}

static uint32_t next_delta(void)
{
	switch (sim_choose(8)) {
	case 0: sim_probe(P_DUE_UNDER_1000); return 1 + sim_choose(999);
	case 1: return 1000;
	case 2: return 999;
	case 3: sim_probe(P_DUE_OVER_50000); return 50000 + sim_choose(200000);
	case 4: return 49999 + sim_choose(3);
	default: sim_probe(P_DUE_1000_50000); return 1000 + sim_choose(49000);
	}
}

static int sleeper(fibre_t *f)
{
	sl_t *s = containerof(f, sl_t, fibre);
	PT_BEGIN_FIBRE(f);
	for (;;) {
		uint32_t t = time_now();
		s->dispatches++;
		if (s->pending) {
			if ((int32_t)(t - s->due) < 0)
				sim_probe(P_WOKEN_BY_OTHER);
			else
				sim_probe(P_TIMER_FIRED);
		}
		s->pending = false;
		sim_ev("sleeper", s->id, (int32_t)(t - s->due), 0);
		/* sometimes wake a colleague (its timeout is then cancelled, by C02) */
		if (sim_chance(1, 6)) {
			int o = sim_choose(nsl);
			fibre_run(&sl[o]->fibre);
			sl[o]->pending = false;
		}
		if (sim_chance(1, 5) && yields_left == 0) {
			yields_left = 1 + sim_choose(3);
			fibre_run(yielder);
			yielder_runnable = true;
		}
		/* sleep on the scheduler's own notion of now (the time passed to this pass) */
		s->due = t + next_delta();
		if (!fibre_timeout(s->due))
			s->pending = true;
		/* made runnable by itself or a colleague during this dispatch? then it is not asleep */
		PT_WAIT();
	}
	PT_END();
}

static int yield_body(fibre_t *f)
{
	PT_BEGIN_FIBRE(f);
	for (;;) {
		sim_probe(P_YIELDER_RAN);
		sim_ev("yielder", yields_left, 0, 0);
		if (yields_left > 0) {
			yields_left--;
			yielder_runnable = true;
			PT_YIELD();
		} else {
			yielder_runnable = false;
			PT_WAIT();
		}
	}
	PT_END();
}

static int sim_usleep(unsigned int usec)
{
	uint32_t t = sim_clock;
	sim_probe(P_SLEPT);
	if (usec >= 50000)
		sim_probe(P_SLEPT_CAPPED);
	if (usec < 1000)
		sim_probe(P_SLEPT_SHORT);
	sim_ev("usleep", usec, 0, 0);
	sim_ops(1);
	/* the loop has decided to sleep for usec: nothing may be runnable, nothing may fall due
	 * before the end of the sleep (allowance: the few clock reads between the scheduler's
	 * return and this call) */
	if (yielder_runnable && usec > 0)	/* usleep(0) delays nobody */
		sim_fail(NULL, "OVERSLEPT:runnable", "the main loop called usleep(%u) while a fibre that had yielded was runnable", usec);
	uint32_t allowance = 4 * code_cost + 2;
	for (int i = 0; i < nsl && usec > 0; i++) {
		if (!sl[i]->pending)
			continue;
		int32_t until_due = (int32_t)(sl[i]->due - t);
		if (until_due + (int32_t)allowance < (int32_t)usec)
			sim_fail(NULL, "OVERSLEPT:timeout",
				 "the main loop called usleep(%u) although fibre %d has a timeout pending in %d us (the scheduler had returned that due time)",
				 usec, i, until_due);
	}
	uint32_t over = 0;
	if (jitter_per_1000 && sim_chance(jitter_per_1000, 1000)) {
		over = 1 + sim_choose(300);
		sim_fault(F_SLEEP_OVERRUN);
	}
	uint32_t nt = t + usec + over;
	if (nt < t)
		sim_fault(F_CLOCK_WRAP);
	sim_ticks(usec + over);
	sim_clock = nt;
	if (++loop_iterations >= max_iterations)
		longjmp(loop_exit, 1);
	return 0;
}

static void run(void)
{
	static const uint32_t bases[] = { 1000000, 0xfffc0000u, 0x7ffc0000u, 0xffffff00u, 0 };
	nsl = 1 + sim_choose(NS);
	code_cost = sim_choose(3);
	if (code_cost)
		sim_fault(F_SLOW_CODE);
	jitter_per_1000 = sim_choose(2) ? sim_choose(200) : 0;
	max_iterations = 5 + sim_choose(60);
	sim_clock = bases[sim_choose(5)] + sim_choose(1000);
	loop_iterations = 0;
	yields_left = 0;
	yielder_runnable = false;
	sim_ev("hdr", nsl, sim_clock, code_cost);

	for (int i = 0; i < nsl; i++) {
		sl[i] = sim_alloc(sizeof(sl_t));
		sl[i]->id = i;
		fibre_init(&sl[i]->fibre, sleeper);
		fibre_run(&sl[i]->fibre);
	}
	yielder = sim_alloc(sizeof(fibre_t));
	fibre_init(yielder, yield_body);

	sim_usleep_hook = sim_usleep;
	sim_budget(50000000);
	if (0 == setjmp(loop_exit))
		fibre_scheduler_main_loop();	/* the real loop; left through usleep after max_iterations sleeps */
	sim_usleep_hook = NULL;
	sim_check_sanitizer();
}

const sim_harness_t sim_harness = {
	.name = "h_ploop",
	.flavour = "asan",
	.run = run,
	.fault_names = fault_names,
	.probe_names = probe_names,
	.min_ops = 3,
	.rule = "one case = the real posix/fibre_posix.c main loop running 5-65 sleep cycles on the simulated "
		"clock (time base next to the wrap points, tape-chosen cost per time_now() call, usleep "
		"overrun jitter) over 1-3 sleeping fibres with timeouts 1 us - 250 ms ahead (clustered at "
		"999/1000/49999/50000) that also wake each other and a yielding fibre; every usleep decision "
		"is judged against the pending timeouts and runnable fibres; non-trivial = at least 3 sleeps "
		"and at least one fault or probe; distinct = distinct hash of the (sleep request, dispatch "
		"lateness) event sequence",
	.real = "librfn/posix/fibre_posix.c (fibre_scheduler_main_loop), fibre.c, list.c, messageq.c, util.c",
	.stub = "time_now() (simulated clock instead of posix/time_posix.c), usleep() (link-time wrap)",
};

int main(int argc, char **argv)
{
	return sim_main(argc, argv);
}
