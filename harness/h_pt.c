/*
 * h_pt - C08: protothreads resume exactly where they blocked and relay child
 * results.
 *
 * The same generated body text (gen_pt.py, seeded from VERIF_SEED) is compiled
 * twice: against include/librfn/protothreads.h (under test) and against a
 * reference header that implements the PT_* macros over a stackful coroutine.
 * Both are driven in lock step under one resumption/environment schedule from
 * the tape; after every resumption the returned state, the trace chunk and the
 * persistent variables must be equal.
 */
#define _GNU_SOURCE
#include "sim.h"

#include <stddef.h>
#include <string.h>
#include <sys/mman.h>
#include <ucontext.h>

#include "pt/pt_common.h"

enum { F_ENV_FLIP, F_SPURIOUS_RESUME, F_REINIT };
static const char *const fault_names[] = { "env_flip", "spurious_resume", "reinit_after_exit", NULL };
enum { P_YIELDED, P_WAITED, P_EXITED, P_FAILED, P_CHILD_RELAY, P_MANY_RESUMPTIONS, P_TRACE_LONG,
       P_RESTARTED, P_UNFINISHED };
static const char *const probe_names[] = { "returned_yielded", "returned_waiting", "returned_exited",
					   "returned_failed", "child_blocked_and_was_relayed",
					   "more_than_20_resumptions", "trace_over_100_entries",
					   "restarted_after_pt_init", "schedule_ended_before_exit", NULL };

extern pt_prog_fn *const real_progs[];
extern pt_prog_fn *const ref_progs[];
extern const unsigned pt_nprogs;

/* ---- the reference side: a stackful coroutine ---------------------------------- */

#define CO_STACK (256 * 1024)
static ucontext_t co_main, co_ctx;
static char *co_stack;
static bool co_live;		/* a program is suspended at a blocking point */
static int co_result;		/* what the last switch-out reported          */
static pt_prog_fn *co_fn;
static ptctx_t *co_arg;
int ref_noblock;

void ref_block(int why)
{
	if (ref_noblock)
		return;		/* PT_CALL: the child runs to completion without blocking */
	co_result = why;
	swapcontext(&co_ctx, &co_main);
}

static void co_tramp(void)
{
	co_result = co_fn(co_arg);
	co_live = false;
	swapcontext(&co_ctx, &co_main);
}

/* one "invocation" of the reference program: start it or continue after its blocking point */
static int ref_invoke(pt_prog_fn *fn, ptctx_t *c)
{
	if (!co_live) {
		getcontext(&co_ctx);
		co_ctx.uc_stack.ss_sp = co_stack;
		co_ctx.uc_stack.ss_size = CO_STACK;
		co_ctx.uc_link = NULL;
		co_fn = fn;
		co_arg = c;
		co_live = true;
		makecontext(&co_ctx, co_tramp, 0);
	}
	swapcontext(&co_main, &co_ctx);
	return co_result;
}

static void init(void)
{
	co_stack = mmap(NULL, CO_STACK, PROT_READ | PROT_WRITE, MAP_PRIVATE | MAP_ANONYMOUS, -1, 0);
}

static ptctx_t real_c, ref_c;
static ptctx_t real_alt, ref_alt;	/* the second instance (no trace of its own) */

static void run(void)
{
	uint32_t prog = sim_choose(pt_nprogs);
	uint32_t max_res = 4 + sim_choose(sim_choose(3) ? 40 : 200);
	uint32_t flip_weight = 1 + sim_choose(4);
	memset(&real_c, 0, sizeof(real_c));
	memset(&ref_c, 0, sizeof(ref_c));
	real_c.env = ref_c.env = sim_choose(16);
	real_c.v[0] = ref_c.v[0] = sim_choose(8);
	real_c.v[1] = ref_c.v[1] = sim_choose(8);
	memset(&real_alt, 0, offsetof(ptctx_t, trace));
	memset(&ref_alt, 0, offsetof(ptctx_t, trace));
	real_c.sink = real_alt.sink = &real_c;
	ref_c.sink = ref_alt.sink = &ref_c;
	real_c.alt = &real_alt;
	ref_c.alt = &ref_alt;
	real_alt.env = ref_alt.env = real_c.env;
	real_alt.v[0] = ref_alt.v[0] = sim_choose(8);
	real_alt.v[1] = ref_alt.v[1] = sim_choose(8);
	co_live = false;
	ref_noblock = 0;
	sim_ev("hdr", prog, real_c.env, real_c.v[0] * 8 + real_c.v[1]);

	uint32_t resumptions = 0;
	bool finished = false;
	for (uint32_t step = 0; step < max_res && !sim_tape_done(); step++) {
		sim_seg();
		/* the environment changes between resumptions - or not (spurious resumption) */
		uint32_t f = sim_choose(4 + flip_weight);
		if (f >= 4) {
			uint32_t bit = 1u << sim_choose(4);
			real_c.env ^= bit;
			ref_c.env ^= bit;
			real_alt.env = ref_alt.env = real_c.env;
			sim_fault(F_ENV_FLIP);
		} else if (f == 3) {
			uint32_t e = sim_choose(16);
			real_c.env = ref_c.env = e;
			real_alt.env = ref_alt.env = e;
			sim_fault(F_ENV_FLIP);
		} else {
			sim_fault(F_SPURIOUS_RESUME);
		}
		uint32_t t0r = real_c.ntrace, t0m = ref_c.ntrace;
		sim_budget(400000000);	/* a PT_CALL may poll a child 70001 times, in nested loops */
		int rs = real_progs[prog](&real_c);
		int ms = ref_invoke(ref_progs[prog], &ref_c);
		resumptions++;
		sim_ops(1);
		sim_check_sanitizer();
		sim_ev("resume", rs, real_c.ntrace - t0r, real_c.env);
		if (rs != ms)
			sim_fail(NULL, "RETURN_CODE",
				 "program %u, invocation %u: the protothread returned %d, the sequential reference %d (0 yielded, 1 waiting, 2 exited, 3 failed)",
				 prog, resumptions, rs, ms);
		uint32_t nr = real_c.ntrace - t0r, nm = ref_c.ntrace - t0m;
		for (uint32_t i = 0; i < nr && i < nm; i++) {
			pt_trace_ent_t *a = &real_c.trace[t0r + i], *b = &ref_c.trace[t0m + i];
			if (a->tag != b->tag)
				sim_fail(NULL, "RESUME_POINT",
					 "program %u, invocation %u: effect %u of this invocation is tag %u, the sequential reference executes tag %u",
					 prog, resumptions, i, a->tag, b->tag);
			if (a->v[0] != b->v[0] || a->v[1] != b->v[1])
				sim_fail(NULL, "VARIABLES",
					 "program %u, invocation %u: at tag %u the persistent variables are (%u,%u), reference (%u,%u)",
					 prog, resumptions, a->tag, a->v[0], a->v[1], b->v[0], b->v[1]);
		}
		if (nr != nm)
			sim_fail(NULL, nr < nm ? "RESUME_POINT:skipped" : "RESUME_POINT:repeated",
				 "program %u, invocation %u executed %u effect(s), the sequential reference %u (next tag %u)",
				 prog, resumptions, nr, nm, nr < nm ? ref_c.trace[t0m + nr].tag : real_c.trace[t0r + nm].tag);
		if (real_c.v[0] != ref_c.v[0] || real_c.v[1] != ref_c.v[1] ||
		    memcmp(real_c.lc, ref_c.lc, sizeof(real_c.lc)) ||
		    real_alt.v[0] != ref_alt.v[0] || real_alt.v[1] != ref_alt.v[1] ||
		    memcmp(real_alt.lc, ref_alt.lc, sizeof(real_alt.lc)))
			sim_fail(NULL, "VARIABLES", "program %u, invocation %u: persistent state differs after the invocation", prog, resumptions);
		if (real_c.pt[1] || real_c.pt[2] || real_c.pt[3])
			if (rs == 0 || rs == 1)
				sim_probe(P_CHILD_RELAY);
		sim_probe(rs == 0 ? P_YIELDED : rs == 1 ? P_WAITED : rs == 2 ? P_EXITED : P_FAILED);
		if (rs >= 2) {
			/* exited or failed: re-invocation only after PT_INIT (the property's scope) */
			if (sim_chance(1, 3)) {
				real_c.pt[0] = 0;	/* PT_INIT(&c->pt[0]) */
				ref_c.pt[0] = 0;
				sim_fault(F_REINIT);
				sim_probe(P_RESTARTED);
			} else {
				finished = true;
				break;
			}
		}
		if (real_c.ntrace > PT_TRACE_MAX - 200)
			break;
	}
	if (resumptions > 20)
		sim_probe(P_MANY_RESUMPTIONS);
	if (real_c.ntrace > 100)
		sim_probe(P_TRACE_LONG);
	if (!finished)
		sim_probe(P_UNFINISHED);
}

const sim_harness_t sim_harness = {
	.name = "h_pt",
	.flavour = "ubsan",
	.run = run,
	.init = init,
	.fault_names = fault_names,
	.probe_names = probe_names,
	.min_ops = 2,
	.rule = "one case = one generated protothread program (effects, PT_YIELD/WAIT/WAIT_UNTIL, if/else, "
		"bounded loops, PT_EXIT(_ON)/PT_FAIL(_ON), PT_SPAWN+PT_CHILD_OK, PT_SPAWN_AND_CHECK, PT_CALL, "
		"children to depth 3; programs regenerated from VERIF_SEED at every build) and one schedule "
		"of resumptions and environment changes (env flips, spurious resumptions, re-initialisation "
		"after exit); the stackless run is compared with a stackful-coroutine run of the same body "
		"text after every invocation; non-trivial = at least 2 invocations; distinct = distinct hash "
		"of (program, environment, per-invocation result and effect count)",
	.real = "include/librfn/protothreads.h (every PT_* macro), as expanded inside generated bodies",
	.stub = "reference semantics: ref_protothreads.h over swapcontext coroutines (shares no code with the header under test)",
};

int main(int argc, char **argv)
{
	return sim_main(argc, argv);
}
