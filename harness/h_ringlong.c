/*
 * h_ringlong - C05, the lifetime dimension: one ring, one very long sequential
 * history.  "Nothing lost, duplicated, reordered or overwritten" has no time
 * limit, and a ring whose bookkeeping counts bytes (free-running indices, fill
 * counters, generation stamps) meets its wrap points only after 2^16 or 2^32
 * bytes.  No interleaving here (h_ring owns that); the producer and the
 * consumer alternate in one context and the ring is kept nearly full, which
 * is where a wrapped count does damage.
 *
 * Quick tier: 2^22 bytes per run.  Thorough tier: run indices 0-15 (one per
 * worker) each carry 2^32 + 2^20 bytes through a ring of a different length.
 */
#include "sim.h"

#include <string.h>
#include <librfn/ringbuf.h>

enum { F_RING_FULL };
static const char *const fault_names[] = { "put_refused_full", NULL };
enum { P_2_16, P_2_32, P_NON_POW2, P_POW2 };
static const char *const probe_names[] = { "more_than_2^16_bytes_through_one_ring", "more_than_2^32_bytes_through_one_ring",
					   "length_not_a_power_of_two", "length_a_power_of_two", NULL };

static inline uint8_t byte_of(uint64_t seq)
{
	return (uint8_t)(seq * 167 + (seq >> 8) * 13 + (seq >> 16) + 11);
}

static void run(void)
{
	static const uint32_t lens[] = { 3, 5, 6, 7, 10, 12, 13, 100, 255, 257, 1000, 4097, 2, 4, 16, 256 };
	bool huge = sim_thorough() && sim_run_index() < 16;
	uint32_t len = huge ? lens[sim_run_index() % 16] : lens[sim_choose(16)];
	uint64_t total = huge ? (1ull << 32) + (1u << 20) : (1u << 22) + sim_choose(1u << 16);
	uint32_t keep = sim_choose(3);		/* unread bytes kept below capacity: 0 = as full as it gets */
	if (keep > len - 2)
		keep = len - 2;
	uint32_t high = len - 1 - keep;		/* fill level at which the consumer takes over */
	uint32_t batch = 1 + sim_choose(high);	/* bytes the consumer takes each time */
	sim_probe(len & (len - 1) ? P_NON_POW2 : P_POW2);
	sim_ev("hdr", len, (int64_t)total, high * 65536 + batch);

	uint8_t *store = sim_alloc(len);
	ringbuf_t *rb = sim_alloc(sizeof(*rb));
	ringbuf_init(rb, store, len);

	uint64_t nput = 0, nget = 0;
	while (nget < total) {
		sim_budget(4000000000ull);
		while (nput - nget < high && nput < total) {
			if (!ringbuf_put(rb, byte_of(nput)))
				sim_fail(NULL, "SPURIOUS_FULL", "put number %llu refused with %llu of %u bytes unread",
					 (unsigned long long)nput, (unsigned long long)(nput - nget), len - 1);
			nput++;
		}
		if (high == len - 1 && nput < total) {
			/* the ring is full: one more put must be refused and change nothing */
			if (ringbuf_put(rb, 0xee))
				sim_fail(NULL, "OVERWRITE", "put number %llu accepted although the ring held %u unread bytes (its capacity)",
					 (unsigned long long)nput, len - 1);
			sim_fault(F_RING_FULL);
		}
		for (uint32_t b = 0; b < batch && nget < nput; b++) {
			int d = ringbuf_get(rb);
			if (d != byte_of(nget))
				sim_fail(NULL, d < 0 ? "FIFO:lost" : "FIFO", "get number %llu returned %d, expected %u (ring of %u, %llu unread)",
					 (unsigned long long)nget, d, byte_of(nget), len, (unsigned long long)(nput - nget));
			nget++;
		}
		if ((nget & 0xfffff) < batch)
			sim_check_sanitizer();
	}
	if (ringbuf_get(rb) != -1 || !ringbuf_empty(rb))
		sim_fail(NULL, "FIFO:phantom", "after all %llu bytes were delivered the ring is not empty", (unsigned long long)total);
	if (total > 65536)
		sim_probe(P_2_16);
	if (total > (1ull << 32))
		sim_probe(P_2_32);
	sim_ops(nget > 0xffffffffu ? 0xffffffffu : (unsigned)nget);
}

const sim_harness_t sim_harness = {
	.name = "h_ringlong",
	.flavour = "ubsan",
	.run = run,
	.fault_names = fault_names,
	.probe_names = probe_names,
	.min_ops = 1,
	.rule = "one case = one ring (length 2-4097, powers of two and not) kept nearly full by an alternating "
		"producer and consumer for 2^22 bytes (thorough tier, run indices 0-15: 2^32 + 2^20 bytes), "
		"every byte compared; sequential: the lifetime dimension of the property, not the interleaving "
		"one; non-trivial = always; distinct = distinct (length, fill level, batch, total)",
	.real = "librfn/ringbuf.c (ringbuf_init, ringbuf_put, ringbuf_get, ringbuf_empty)",
	.stub = "none",
};

int main(int argc, char **argv)
{
	return sim_main(argc, argv);
}
