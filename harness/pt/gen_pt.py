#!/usr/bin/env python3
"""
gen_pt.py <seed> <nprogs> <outdir>

Generates protothread programs for C08 from the grammar of DESIGN.md section 4
(C08): straight-line effects, PT_YIELD / PT_WAIT / PT_WAIT_UNTIL, if/else,
bounded for/while loops over persistent counters, PT_EXIT(_ON), PT_FAIL(_ON),
PT_SPAWN + PT_CHILD_OK, PT_SPAWN_AND_CHECK and PT_CALL, children to depth 3.

Scope of the property is respected, no narrower: one PT_* blocking macro per
source line, none inside a switch, PT_CHILD_OK consulted before the next
blocking point, PT_CALL only of children without environment-dependent waits.

Output: pt_bodies.inc (function definitions written with FN(name) and PT_*
macros, compiled twice) and pt_table.inc (PROG(name) lines for the root
functions).
"""
import random
import sys


class Prog:
    def __init__(self, rng, pid):
        self.rng = rng
        self.pid = pid
        self.tag = 0
        self.funcs = []      # (name, text)
        self.nfunc = 0
        self.spun = False
        self.fstack = []     # names of the functions being generated (innermost last)

    def newtag(self):
        self.tag += 1
        return self.tag + 100 * (self.pid % 600)

    # ---- expressions -----------------------------------------------------------
    def childp(self, depth):
        """the child-pointer argument of PT_SPAWN / PT_SPAWN_AND_CHECK / PT_CALL: usually a plain
        address, sometimes an expression with an observable side effect (it must be evaluated
        exactly once each time the spawn point is reached)"""
        if self.rng.randrange(4) == 0:
            return "PP(c, %d, %d)" % (depth, self.newtag())
        return "&c->pt[%d]" % depth

    def self_instance(self, depth):
        """another instance of the function being generated, run to completion on the second
        context (which has no second context of its own, so the recursion ends there)"""
        return "if (c->alt) PT_CALL(&c->alt->pt[%d], FN(%s)(c->alt));" % (depth, self.fstack[-1])

    def cond(self, call_safe):
        r = self.rng
        if r.randrange(7) == 0:
            # a condition with an observable side effect: PT_EXIT_ON / PT_FAIL_ON / if evaluate it once
            return "(E(c, %d) && %s)" % (self.newtag(), self.cond(call_safe))
        if r.randrange(8) == 0:
            # conditions that are not plain ints: non-zero values that a narrowing to int would lose
            return r.choice(["((uint64_t)(c->v[%d] & 1) << 40)" % r.randrange(2),
                             "(0.25 * (c->v[%d] & 3))" % r.randrange(2),
                             "((unsigned long long)c->v[0] * 0x100000000ull)"])
        k = r.randrange(6 if not call_safe else 3)
        if k == 0:
            return "(c->v[%d] & %d)" % (r.randrange(2), 1 << r.randrange(3))
        if k == 1:
            return "(c->v[%d] %% %d < %d)" % (r.randrange(2), r.choice([3, 5, 7]), r.randrange(1, 4))
        if k == 2:
            return "(c->v[0] > c->v[1])"
        if k == 3:
            return "(c->env & %d)" % (1 << r.randrange(4))
        if k == 4:
            return "!(c->env & %d)" % (1 << r.randrange(4))
        return "((c->env & %d) && (c->v[%d] & 1))" % (1 << r.randrange(4), r.randrange(2))

    def env_cond(self):
        """condition of a PT_WAIT_UNTIL: depends on the environment so that it can become true"""
        r = self.rng
        bit = 1 << r.randrange(4)
        k = r.randrange(4)
        if k == 0:
            return "(c->env & %d)" % bit
        if k == 1:
            return "!(c->env & %d)" % bit
        if k == 2:
            # observable re-evaluation: E() traces every evaluation of the condition
            return "(E(c, %d) && (c->env & %d))" % (self.newtag(), bit)
        return "((c->env & %d) || (c->env & %d))" % (bit, 1 << r.randrange(4))

    def effect(self):
        r = self.rng
        k = r.randrange(5)
        t = self.newtag()
        if k == 0:
            return ["T(c, %d);" % t]
        if k == 1:
            return ["c->v[%d] += %d;" % (r.randrange(2), r.randrange(1, 9)), "T(c, %d);" % t]
        if k == 2:
            return ["c->v[0] = c->v[1] * %d + %d;" % (r.choice([3, 5, 7]), r.randrange(10)), "T(c, %d);" % t]
        if k == 3:
            return ["c->v[1] ^= c->v[0] + %d;" % r.randrange(16), "T(c, %d);" % t]
        return ["T(c, %d);" % t, "c->v[%d]++;" % r.randrange(2)]

    # ---- statements --------------------------------------------------------------
    def block(self, depth, nest, loopn, budget, call_safe, in_loop):
        """returns list of lines; budget = max statements"""
        r = self.rng
        out = []
        n = r.randrange(1, max(2, budget))
        for _ in range(n):
            k = r.randrange(100)
            if r.randrange(9) == 0 and nest < 3:
                # an UNBRACED single-statement body: every PT_* macro must be one statement
                one = self.single(depth, call_safe)
                if one is not None:
                    shape = r.randrange(3)
                    if shape == 0:
                        out.append("if (%s)" % self.cond(call_safe))
                        out.append("\t" + one)
                        if r.randrange(2):
                            other = self.single(depth, call_safe)
                            if other is not None:
                                out.append("else")
                                out.append("\t" + other)
                    elif shape == 1 and loopn < 3:
                        lc = "c->lc[%d][%d]" % (depth, loopn)
                        out.append("for (%s = 0; %s < %d; %s++)" % (lc, lc, r.randrange(1, 4), lc))
                        out.append("\t" + one)
                    else:
                        out.append("if (!%s)" % self.cond(call_safe))
                        out.append("\t" + one)
                    out.append("T(c, %d);" % self.newtag())
                    continue
            if call_safe and not self.spun and nest == 0 and loopn == 0 and r.randrange(10) == 0:
                # a child run under PT_CALL may block any number of times: PT_CALL polls it to the end
                self.spun = True
                lc = "c->lc[%d][%d]" % (depth, 2)
                out.append("for (%s = 0; %s < %d; %s++)" % (lc, lc, r.choice([255, 256, 65535, 65536, 65537, 70001]), lc))
                out.append("\t" + r.choice(["PT_YIELD();", "PT_WAIT();"]))
                out.append("T(c, %d);" % self.newtag())
                continue
            if call_safe and r.randrange(25) == 0:
                out.append(self.self_instance(depth))
                out.append("T(c, %d);" % self.newtag())
                continue
            if k < 22:
                out += self.effect()
            elif k < 34:
                out.append("PT_YIELD();")
            elif k < 42:
                out.append("PT_WAIT();")
            elif k < 52 and not call_safe:
                out.append("PT_WAIT_UNTIL(%s);" % self.env_cond())
            elif k < 62 and nest < 3:
                out.append("if (%s) {" % self.cond(call_safe))
                out += ["\t" + l for l in self.block(depth, nest + 1, loopn, budget // 2 + 1, call_safe, in_loop)]
                if r.randrange(2):
                    out.append("} else {")
                    out += ["\t" + l for l in self.block(depth, nest + 1, loopn, budget // 2 + 1, call_safe, in_loop)]
                out.append("}")
            elif k < 72 and nest < 3 and loopn < 3:
                lc = "c->lc[%d][%d]" % (depth, loopn)
                bound = r.randrange(1, 4)
                if r.randrange(2):
                    out.append("for (%s = 0; %s < %d; %s++) {" % (lc, lc, bound, lc))
                    out += ["\t" + l for l in self.block(depth, nest + 1, loopn + 1, budget // 2 + 1, call_safe, True)]
                    out.append("}")
                else:
                    out.append("%s = 0;" % lc)
                    out.append("while (%s < %d) {" % (lc, bound))
                    out += ["\t" + l for l in self.block(depth, nest + 1, loopn + 1, budget // 2 + 1, call_safe, True)]
                    out.append("\t%s++;" % lc)
                    out.append("}")
            elif k < 76:
                out.append("PT_EXIT_ON(%s);" % self.cond(call_safe))
            elif k < 79:
                out.append("PT_FAIL_ON(%s);" % self.cond(call_safe))
            elif k < 81 and nest > 0:
                out.append("PT_EXIT();" if r.randrange(2) else "PT_FAIL();")
            elif k < 95 and depth < 3:
                kind = r.randrange(10)
                if kind < 5:
                    child = self.func(depth + 1, call_safe)
                    out.append("PT_SPAWN(%s, FN(%s)(c));" % (self.childp(depth + 1), child))
                    if call_safe and r.randrange(3) == 0:
                        # not a blocking point of this function: the child's result must survive it
                        out.append(self.self_instance(depth))
                    # PT_CHILD_OK is consulted before the next blocking point
                    out.append("T(c, PT_CHILD_OK() ? %d : %d);" % (self.newtag(), self.newtag()))
                elif kind < 8:
                    child = self.func(depth + 1, call_safe)
                    out.append("PT_SPAWN_AND_CHECK(%s, FN(%s)(c));" % (self.childp(depth + 1), child))
                    out.append("T(c, %d);" % self.newtag())
                else:
                    child = self.func(depth + 1, True)
                    out.append("PT_CALL(%s, FN(%s)(c));" % (self.childp(depth + 1), child))
                    out.append("T(c, %d);" % self.newtag())
            else:
                out += self.effect()
        return out

    def single(self, depth, call_safe):
        """one statement consisting of a single PT_* macro (for unbraced bodies)"""
        r = self.rng
        k = r.randrange(8)
        if k == 0:
            return "PT_YIELD();"
        if k == 1:
            return "PT_WAIT();"
        if k == 2 and not call_safe:
            return "PT_WAIT_UNTIL(%s);" % self.env_cond()
        if k == 3:
            return "PT_EXIT_ON(%s);" % self.cond(call_safe)
        if k == 4:
            return "PT_FAIL_ON(%s);" % self.cond(call_safe)
        if depth < 3:
            if k == 5:
                return "PT_SPAWN(%s, FN(%s)(c));" % (self.childp(depth + 1), self.func(depth + 1, call_safe))
            if k == 6:
                return "PT_SPAWN_AND_CHECK(%s, FN(%s)(c));" % (self.childp(depth + 1), self.func(depth + 1, call_safe))
            return "PT_CALL(%s, FN(%s)(c));" % (self.childp(depth + 1), self.func(depth + 1, True))
        return "PT_YIELD();"

    def func(self, depth, call_safe):
        name = "p%d_f%d" % (self.pid, self.nfunc)
        self.nfunc += 1
        idx = len(self.funcs)
        self.funcs.append(None)
        self.fstack.append(name)
        body = self.block(depth, 0, 0, 7 if depth else 9, call_safe, False)
        self.fstack.pop()
        lines = ["static int FN(%s)(ptctx_t *c)" % name, "{", "\tPT_BEGIN(&c->pt[%d]);" % depth]
        lines.append("\tT(c, %d);" % self.newtag())
        lines += ["\t" + l for l in body]
        if self.rng.randrange(4) == 0:
            lines.append("\tT(c, %d);" % self.newtag())
        lines.append("\tPT_END();")
        lines.append("}")
        self.funcs[idx] = (name, "\n".join(lines))
        return name


def main():
    seed, nprogs, outdir = int(sys.argv[1]), int(sys.argv[2]), sys.argv[3]
    rng = random.Random(seed * 1000003 + 17)
    bodies = ["/* generated by gen_pt.py seed=%d nprogs=%d: do not edit */" % (seed, nprogs)]
    table = []
    for pid in range(nprogs):
        p = Prog(rng, pid)
        root = p.func(0, False)
        # pt_t is 16 bits wide and holds __LINE__: restart the line count for every program so
        # that a large collection never exceeds 65535 (the header's documented requirement)
        bodies.append('#line 1 "pt_prog_%d.inc"' % pid)
        # children are defined before their parents (they were generated after, so reverse)
        for f in reversed(p.funcs):
            bodies.append(f[1])
            bodies.append("")
        table.append("PROG(%s)" % root)
    open(outdir + "/pt_bodies.inc", "w").write("\n".join(bodies) + "\n")
    open(outdir + "/pt_table.inc", "w").write("\n".join(table) + "\n")


if __name__ == "__main__":
    main()
