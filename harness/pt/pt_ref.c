/* the generated bodies compiled against the reference (stackful coroutine) semantics */
#include "ref_protothreads.h"
#include "pt_common.h"
#define FN(n) ref_##n
#include "pt_bodies.inc"
pt_prog_fn *const ref_progs[] = {
#define PROG(n) (pt_prog_fn *)ref_##n,
#include "pt_table.inc"
#undef PROG
};
const unsigned pt_nprogs = sizeof(ref_progs) / sizeof(ref_progs[0]);
