/*
 * ref_protothreads.h - REFERENCE semantics for the PT_* macros (C08).
 *
 * Same macro names as include/librfn/protothreads.h, but implemented over a
 * stackful coroutine: the body simply runs as one sequential program on its own
 * stack and "blocking" switches out of that stack.  This is, literally, "one
 * sequential program cut at its blocking points"; it shares no code with the
 * header under test.
 */
#ifndef REF_PROTOTHREADS_H_
#define REF_PROTOTHREADS_H_

#include <stdint.h>

typedef enum { PT_YIELDED, PT_WAITING, PT_EXITED, PT_FAILED } pt_state_t;
typedef uint16_t pt_t;

/* provided by the harness: switch out of the coroutine reporting `why`; returns when resumed.
 * Inside PT_CALL it returns at once (the child is run to completion without blocking). */
void ref_block(int why);
extern int ref_noblock;

#define PT_INIT(pt) do { *(pt) = 0; } while (0)

#define PT_BEGIN(pt)                                                           \
	{                                                                      \
		pt_state_t pt_spawn_res = 0;                                   \
		(void)pt_spawn_res;                                            \
		(void)(pt);                                                    \
		{

#define PT_END()                                                               \
		}                                                              \
	}                                                                      \
	return PT_EXITED

#define PT_WAIT() ref_block(PT_WAITING)
#define PT_YIELD() ref_block(PT_YIELDED)
#define PT_WAIT_UNTIL(c)                                                       \
	do {                                                                   \
		while (!(c))                                                   \
			ref_block(PT_WAITING);                                 \
	} while (0)

#define PT_EXIT() return PT_EXITED
#define PT_EXIT_ON(x) do { if (x) PT_EXIT(); } while (0)
#define PT_FAIL() return PT_FAILED
#define PT_FAIL_ON(x) do { if (x) PT_FAIL(); } while (0)

/* the child is a plain nested call on the same stack: it starts from its beginning each
 * time this point is reached, its blocking points block the whole program, and the
 * parent continues once it returns */
#define PT_SPAWN(child, thread)                                                \
	do {                                                                   \
		PT_INIT(child);                                                \
		pt_spawn_res = (thread);                                       \
	} while (0)

#define PT_CHILD_OK() (pt_spawn_res != PT_FAILED)

#define PT_SPAWN_AND_CHECK(child, thread)                                      \
	do {                                                                   \
		PT_SPAWN(child, thread);                                       \
		PT_FAIL_ON(!PT_CHILD_OK());                                    \
	} while (0)

#define PT_CALL(child, thread)                                                 \
	do {                                                                   \
		PT_INIT(child);                                                \
		ref_noblock++;                                                 \
		(void)(thread);                                                \
		ref_noblock--;                                                 \
	} while (0)

#endif
