/* pt_common.h - shared by the two compilations of the generated protothread bodies (C08) */
#ifndef PT_COMMON_H_
#define PT_COMMON_H_

#include <stdint.h>

#define PT_MAXDEPTH 4
#define PT_TRACE_MAX 4096

typedef struct {
	uint16_t tag;
	uint32_t v[2];
} pt_trace_ent_t;

typedef struct ptctx {
	uint16_t pt[PT_MAXDEPTH];	/* one protothread state per nesting depth (pt_t is uint16_t) */
	uint32_t v[2];			/* persistent variables                                     */
	uint32_t lc[PT_MAXDEPTH][3];	/* loop counters, per function depth and loop nesting       */
	uint32_t env;			/* environment bits, flipped by the schedule                */
	struct ptctx *alt;		/* a second, independent context: another instance of the
					 * same functions can run on it (NULL in the second context) */
	struct ptctx *sink;		/* the context whose trace records the effects               */
	uint32_t ntrace;
	pt_trace_ent_t trace[PT_TRACE_MAX];
} ptctx_t;

static inline void pt_trace_add(ptctx_t *c, unsigned tag)
{
	ptctx_t *s = c->sink;
	if (s->ntrace < PT_TRACE_MAX) {
		s->trace[s->ntrace].tag = tag;
		s->trace[s->ntrace].v[0] = c->v[0];
		s->trace[s->ntrace].v[1] = c->v[1];
		s->ntrace++;
	}
}

/* effect */
#define T(c, tag) pt_trace_add((c), (tag))
/* observable evaluation of (part of) a condition: always true */
static inline int pt_eval_mark(ptctx_t *c, unsigned tag)
{
	pt_trace_add(c, tag);
	return 1;
}
#define E(c, tag) pt_eval_mark((c), (tag))

/* observable evaluation of a child-pointer argument */
static inline uint16_t *pt_ptr_mark(ptctx_t *c, unsigned depth, unsigned tag)
{
	pt_trace_add(c, tag);
	return &c->pt[depth];
}
#define PP(c, depth, tag) pt_ptr_mark((c), (depth), (tag))

typedef int (pt_prog_fn)(ptctx_t *);

#endif
