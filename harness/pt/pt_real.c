/* the generated bodies compiled against the header under test */
#include <librfn/protothreads.h>
#include "pt_common.h"
#define FN(n) real_##n
#include "pt_bodies.inc"
pt_prog_fn *const real_progs[] = {
#define PROG(n) (pt_prog_fn *)real_##n,
#include "pt_table.inc"
#undef PROG
};
