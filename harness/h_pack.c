/*
 * h_pack - C12: pack/unpack streams whose fault is the end of the buffer.
 *
 * The operation sequence is generated first; the buffer size is then placed so
 * that the crossing of the end falls inside a tape-chosen operation at a
 * tape-chosen byte offset (including exact fit and size 0).  The buffer is an
 * exact-size heap block (ASan redzones on both sides).  Model: byte vector,
 * cursor counting every requested byte, sticky overflow.
 */
#include "sim.h"

#include <string.h>
#include <librfn/pack.h>

enum { F_BUFFER_END, F_EXACT_FIT, F_SIZE_ZERO, F_HUGE_REQUEST, F_NULL_POINTER };
static const char *const fault_names[] = { "buffer_end_inside_item", "exact_fit", "buffer_size_zero",
					   "huge_request", "null_pointer", NULL };
enum { P_AFTER_OVERFLOW, P_ZEROFILL, P_ROUNDTRIP, P_ZERO_LEN_BYTES, P_FIT_ALL, P_NULL_BUFFER };
static const char *const probe_names[] = { "op_after_overflow", "zero_filled_output",
					   "round_trip_phase", "zero_length_byte_run",
					   "everything_fitted", "null_buffer_of_size_zero", NULL };

enum { K_BYTES, K_S16LE, K_U16BE, K_U16LE, K_S32LE, K_U32LE, K_NPACK };
enum { U_BYTES, U_CHAR, U_S8, U_U8, U_U16LE, U_U32LE, U_NUNPACK };

#define MAXOPS 24
typedef struct {
	uint8_t kind;
	uint32_t sz;		/* requested bytes */
	uint32_t val;
	bool null;
	uint8_t bytes[12];
} op_t;

static uint32_t gen_val(void)
{
	switch (sim_choose(6)) {
	case 0: return 0x04030201u;
	case 1: return 0xfffefdfcu;
	case 2: return 0x80000000u;
	case 3: return 0x8081f0ffu;
	case 4: return sim_bits32();
	default: return (uint32_t)sim_choose(256) << (8 * sim_choose(4));
	}
}

/* every call names the API function directly and passes argument expressions with observable
 * side effects: an entry point implemented as a macro must evaluate each argument exactly once */
static unsigned ev_p, ev_a;
#define PKP (ev_p++, &pk)
#define A(x) (ev_a++, (x))
static void once(unsigned nargs, const char *fn)
{
	if (ev_p != 1 || ev_a != nargs)
		sim_fail(NULL, "ARG_EVALUATION",
			 "%s evaluated its pack-state argument %u time(s) and its %u other argument(s) %u time(s) in total",
			 fn, ev_p, nargs, ev_a);
	ev_p = ev_a = 0;
}

static const uint8_t pack_sz[K_NPACK] = { 0, 2, 2, 2, 4, 4 };
static const uint8_t unpack_sz[U_NUNPACK] = { 0, 1, 1, 1, 2, 4 };

static void check_counters(rf_pack_t *pk, uint64_t cur, uint32_t B, const char *what, int i)
{
	int c = rf_pack_consumed(pk), r = rf_pack_remaining(pk);
	if (c != (int)cur || r != (int)((int64_t)B - (int64_t)cur))
		sim_fail(NULL, "COUNTERS",
			 "after %s op %d: consumed=%d remaining=%d, expected %lld and %lld (buffer %u)",
			 what, i, c, r, (long long)cur, (long long)B - (long long)cur, B);
}

static void run(void)
{
	op_t ops[MAXOPS];
	ev_p = ev_a = 0;
	bool unpack_phase = sim_choose(3) == 2;	/* 0,1: pack then round trip; 2: unpack of noise */
	uint32_t n = 1 + sim_choose(MAXOPS);
	bool allow_huge = sim_chance(1, 6);
	uint64_t total = 0;

	for (uint32_t i = 0; i < n; i++) {
		sim_seg();
		op_t *o = &ops[i];
		memset(o, 0, sizeof(*o));
		o->kind = sim_choose(unpack_phase ? U_NUNPACK : K_NPACK);
		o->val = gen_val();
		if (o->kind == 0) {	/* byte run */
			o->sz = sim_choose(10);
			o->null = sim_chance(1, 5);
			if (allow_huge && !unpack_phase && sim_chance(1, 8) &&
			    total < 0x10000000u) {
				o->sz = 0x30000000u + sim_choose(0x1000);
				sim_fault(F_HUGE_REQUEST);
			} else if (allow_huge && unpack_phase && sim_chance(1, 8) &&
				   total < 0x10000000u) {
				o->sz = 0x30000000u + sim_choose(0x1000);
				o->null = true;	/* a huge destination cannot be provided */
				sim_fault(F_HUGE_REQUEST);
			}
			for (unsigned k = 0; k < sizeof(o->bytes); k++)
				o->bytes[k] = (o->val >> (8 * (k & 3))) + k;
			if (o->null)
				sim_fault(F_NULL_POINTER);
			if (o->sz == 0)
				sim_probe(P_ZERO_LEN_BYTES);
		} else {
			o->sz = unpack_phase ? unpack_sz[o->kind] : pack_sz[o->kind];
		}
		total += o->sz;
	}

	/* place the end of the buffer */
	sim_seg();
	uint32_t B;
	uint32_t k = sim_choose(n + 2);		/* op in which the end falls; n, n+1 = beyond */
	uint64_t prefix = 0;
	for (uint32_t i = 0; i < k && i < n; i++)
		prefix += ops[i].sz;
	if (prefix > 4096)
		prefix = sim_choose(64);	/* the huge item cannot fit anyway */
	if (k < n) {
		uint32_t span = ops[k].sz > 16 ? 16 : ops[k].sz;
		uint32_t j = span ? sim_choose(span) : 0;
		B = prefix + j;
		if (j || !span)
			sim_fault(F_BUFFER_END);
		if (!j)
			sim_fault(F_EXACT_FIT);	/* the first k items fit exactly */
	} else if (k == n) {
		B = prefix;
		sim_fault(F_EXACT_FIT);
	} else {
		B = prefix + sim_choose(8);
	}
	if (B == 0)
		sim_fault(F_SIZE_ZERO);

	uint8_t *buf = sim_alloc(B);		/* exact size: one byte beyond is a redzone */
	if (B == 0 && sim_choose(2)) {
		/* a sizing pass in the style of snprintf(NULL, 0): no buffer at all; the counters must
		 * still count every requested byte */
		buf = NULL;
		sim_probe(P_NULL_BUFFER);
	}
	static uint8_t model[4096 + 64];
	uint64_t cur = 0;
	rf_pack_t pk;
	sim_ev("hdr", unpack_phase, n, B);

	if (!unpack_phase) {
		/* distinct background so "not transferred" is visible */
		for (uint32_t i = 0; i < B; i++)
			buf[i] = model[i] = 0xa5 ^ (uint8_t)i;
		rf_pack_init(&pk, buf, B);
		for (uint32_t i = 0; i < n; i++) {
			op_t *o = &ops[i];
			bool fits = cur + o->sz <= B;
			if (cur > B)
				sim_probe(P_AFTER_OVERFLOW);
			uint8_t *src = NULL;
			if (o->kind == K_BYTES && !o->null) {
				/* exact-size source so an over-read is caught too */
				uint32_t have = o->sz > sizeof(o->bytes) ? sizeof(o->bytes) : o->sz;
				src = sim_alloc(have);
				memcpy(src, o->bytes, have);
			}
			sim_budget(100000);
			switch (o->kind) {
			case K_BYTES: rf_pack_bytes(PKP, A(src), A(o->sz)); once(2, "rf_pack_bytes"); break;
			case K_S16LE: rf_pack_s16le(PKP, A((int16_t)o->val)); once(1, "rf_pack_s16le"); break;
			case K_U16BE: rf_pack_u16be(PKP, A((uint16_t)o->val)); once(1, "rf_pack_u16be"); break;
			case K_U16LE: rf_pack_u16le(PKP, A((uint16_t)o->val)); once(1, "rf_pack_u16le"); break;
			case K_S32LE: rf_pack_s32le(PKP, A((int32_t)o->val)); once(1, "rf_pack_s32le"); break;
			case K_U32LE: rf_pack_u32le(PKP, A(o->val)); once(1, "rf_pack_u32le"); break;
			}
			sim_ops(1);
			if (src && memcmp(src, o->bytes, o->sz > sizeof(o->bytes) ? sizeof(o->bytes) : o->sz))
				sim_fail(NULL, "SOURCE_MODIFIED", "rf_pack_bytes of %u bytes (%s) changed the caller's source array",
					 o->sz, fits ? "fits" : "does not fit");
			if (fits) {
				uint8_t *m = model + cur;
				uint32_t v = o->val;
				switch (o->kind) {
				case K_BYTES:
					for (uint32_t b = 0; b < o->sz; b++)
						m[b] = o->null ? 0 : o->bytes[b];
					break;
				case K_S16LE: case K_U16LE: m[0] = v; m[1] = v >> 8; break;
				case K_U16BE: m[0] = v >> 8; m[1] = v; break;
				case K_S32LE: case K_U32LE:
					m[0] = v; m[1] = v >> 8; m[2] = v >> 16; m[3] = v >> 24; break;
				}
			}
			cur += o->sz;
			sim_ev("pack", o->kind, o->sz, fits);
			sim_check_sanitizer();
			if (B && memcmp(buf, model, B)) {
				uint32_t d = 0;
				while (buf[d] == model[d])
					d++;
				sim_fail(NULL, cur > B ? "STICKY_OR_PARTIAL" : "IMAGE",
					 "after pack op %d (kind %d, %u bytes, %s): buffer[%u]=0x%02x, expected 0x%02x",
					 i, o->kind, o->sz, fits ? "fits" : "does not fit", d, buf[d], model[d]);
			}
			check_counters(&pk, cur, B, "pack", i);
		}
		if (cur <= B)
			sim_probe(P_FIT_ALL);
	} else {
		for (uint32_t i = 0; i < B; i++)
			buf[i] = model[i] = (uint8_t)(sim_choose(4) ? sim_choose(256) : 0x80 | i);
	}

	/* unpack phase: mirror of what was packed, or generated unpack ops over noise */
	sim_seg();
	if (!unpack_phase)
		sim_probe(P_ROUNDTRIP);
	rf_pack_init(&pk, buf, B);
	cur = 0;
	for (uint32_t i = 0; i < n; i++) {
		op_t *o = &ops[i];
		int uk;
		if (unpack_phase)
			uk = o->kind;
		else
			uk = o->kind == K_BYTES ? U_BYTES :
			     (o->kind == K_S32LE || o->kind == K_U32LE) ? U_U32LE :
			     o->kind == K_U16BE ? U_BYTES : U_U16LE;
		uint32_t sz = uk == U_BYTES ? (o->kind == K_U16BE && !unpack_phase ? 2 : o->sz)
					    : unpack_sz[uk];
		bool fits = cur + sz <= B;
		if (cur > B)
			sim_probe(P_AFTER_OVERFLOW);
		uint32_t got = 0, want = 0;
		const uint8_t *m = model + cur;
		sim_budget(100000);
		if (uk == U_BYTES) {
			bool null = o->null && o->kind == 0;
			if (sz > 4096)
				null = true;
			uint8_t *dst = null ? NULL : sim_alloc(sz);
			if (dst)
				memset(dst, 0xee, sz);
			rf_unpack_bytes(PKP, A(dst), A(sz));
			once(2, "rf_unpack_bytes");
			sim_check_sanitizer();
			if (dst) {
				for (uint32_t b = 0; b < sz; b++) {
					uint8_t w = fits ? m[b] : 0;
					if (dst[b] != w)
						sim_fail(NULL, fits ? "VALUE" : "ZEROFILL",
							 "unpack_bytes op %d (%u bytes, %s): out[%u]=0x%02x expected 0x%02x",
							 i, sz, fits ? "fits" : "does not fit", b, dst[b], w);
				}
				if (!fits && sz)
					sim_probe(P_ZEROFILL);
			}
		} else {
			switch (uk) {
			case U_CHAR: got = (uint8_t)rf_unpack_char(PKP); want = fits ? m[0] : 0; break;
			case U_S8: got = (uint32_t)(int32_t)rf_unpack_s8(PKP);
				want = fits ? (uint32_t)(int32_t)(int8_t)m[0] : 0; break;
			case U_U8: got = rf_unpack_u8(PKP); want = fits ? m[0] : 0; break;
			case U_U16LE: got = rf_unpack_u16le(PKP);
				want = fits ? (uint32_t)m[0] | (uint32_t)m[1] << 8 : 0; break;
			case U_U32LE: got = rf_unpack_u32le(PKP);
				want = fits ? (uint32_t)m[0] | (uint32_t)m[1] << 8 |
					      (uint32_t)m[2] << 16 | (uint32_t)m[3] << 24 : 0; break;
			}
			sim_check_sanitizer();
			once(0, "rf_unpack_<scalar>");
			if (got != want)
				sim_fail(NULL, fits ? "VALUE" : "STICKY_OR_PARTIAL",
					 "unpack op %d (kind %d, %s): returned 0x%x expected 0x%x",
					 i, uk, fits ? "fits" : "does not fit", got, want);
			if (!unpack_phase && fits) {
				/* round trip: the value packed comes back */
				uint32_t orig = unpack_sz[uk] == 2 ? (o->val & 0xffff) : o->val;
				if (got != orig)
					sim_fail(NULL, "ROUNDTRIP", "op %d: packed 0x%x, unpacked 0x%x", i, orig, got);
			}
		}
		sim_ops(1);
		cur += sz;
		sim_ev("unpack", uk, sz, got);
		if (memcmp(buf, model, B))
			sim_fail(NULL, "IMAGE", "unpack op %d modified the buffer", i);
		check_counters(&pk, cur, B, "unpack", i);
	}
}

const sim_harness_t sim_harness = {
	.name = "h_pack",
	.flavour = "asan",
	.run = run,
	.fault_names = fault_names,
	.probe_names = probe_names,
	.min_ops = 2,
	.rule = "one case = one generated sequence of 1-24 implemented pack (then mirrored unpack) or "
		"unpack-over-noise operations with the end of an exact-size heap buffer placed inside "
		"a tape-chosen operation; non-trivial = at least 2 operations and the buffer end, "
		"exact fit, size 0, a huge request or a NULL pointer occurred; distinct = distinct hash "
		"of the (op, size, fits/value) event sequence",
	.real = "librfn/pack.c (all implemented rf_pack_*/rf_unpack_* functions, rf_pack_consumed, rf_pack_remaining)",
	.stub = "none",
};

int main(int argc, char **argv)
{
	return sim_main(argc, argv);
}
