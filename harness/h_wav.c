/*
 * h_wav - C14: decoding untrusted WAV header bytes.
 *
 * The decoder is a stream consumer; its contract is about the stream ending
 * early or lying.  A reference writer produces well-formed headers; the tape
 * then applies stream faults (hostile size fields, bit flips, magic
 * corruption, tail garbage, truncation) or replaces everything with noise.
 * Every (bytes, length) pair is presented in an exact-size heap block.
 *
 * Oracles: an independent 64-bit chunk walker (structural length of consistent
 * headers), self-consistency of accepted lengths (exactness, no accepted
 * truncation: every proper prefix is tried), and "helpers never fault".
 */
#include "sim.h"

#include <stdlib.h>
#include <string.h>
#include <librfn/wavheader.h>

enum { F_TRUNCATE, F_BIT_FLIP, F_HOSTILE_SIZE, F_MAGIC, F_TAIL_GARBAGE, F_RANDOM_BYTES, F_ALLOC_FAIL,
       F_FIELD_EXTREMES };
static const char *const fault_names[] = { "stream_truncate", "bit_flip", "hostile_size_field",
					   "magic_corrupt", "tail_garbage", "random_bytes",
					   "alloc_fail", "field_extremes", NULL };
enum { P_ACCEPTED, P_INCOMPLETE, P_REJECTED, P_ACCEPTED_MUTATED, P_PREFIXES, P_FACT, P_EXTENSIBLE,
       P_PADDED_FMT, P_ZERO_BLOCK_ALIGN, P_INCREMENTAL_STEPS, P_CONSISTENT_CHECKED, P_LEN_ZERO,
       P_BIG_FMT, P_LEN_OVER_65593, P_FOREIGN_CHUNK };
static const char *const probe_names[] = {
	"input_accepted", "input_reported_incomplete", "input_rejected", "mutated_input_accepted",
	"prefixes_tried", "fact_chunk_present", "extensible_header", "padded_fmt_chunk",
	"structure_with_zero_block_align", "incremental_reader_steps", "structural_length_checked",
	"zero_length_input", "fmt_extension_of_255_to_65535_bytes", "declared_length_over_65593",
	"foreign_chunk_id_where_data_is_expected", NULL };

static void put16(uint8_t *p, uint32_t v) { p[0] = v; p[1] = v >> 8; }
static void put32(uint8_t *p, uint32_t v) { p[0] = v; p[1] = v >> 8; p[2] = v >> 16; p[3] = v >> 24; }
static uint32_t get16(const uint8_t *p) { return p[0] | p[1] << 8; }
static uint32_t get32(const uint8_t *p) { return p[0] | p[1] << 8 | p[2] << 16 | (uint32_t)p[3] << 24; }

#define IN_MAX ((1u << 20) + 66000u)
static uint8_t in[IN_MAX + 64];
static uint32_t in_len;
static int off_fmt_size, off_cb_size, off_fact_size, off_data_size, off_fact_id, off_data_id;

/* reference writer: returns the header length */
static uint32_t write_reference(void)
{
	static const uint32_t rates[] = { 8000, 11025, 44100, 48000, 96000, 1, 0xffffffffu };
	uint32_t kind = sim_choose(6);
	uint32_t ch = 1 + sim_choose(8);
	uint32_t rate = rates[sim_choose(7)];
	uint32_t frames = sim_choose(3) ? sim_choose(100000) : 0;
	bool fact = kind >= 2 && sim_choose(2);
	uint32_t fmt_size, tag, bits, cb = 0;
	if (kind == 2)
		fact = true;
	switch (kind) {
	case 0: fmt_size = 16; tag = 1; bits = 16; break;
	case 1: fmt_size = 16; tag = 1; bits = 32; break;
	case 2: fmt_size = 18; tag = 3; bits = 32; break;
	case 3: fmt_size = 40; tag = 0xfffe; bits = sim_choose(2) ? 16 : 32; cb = 22; sim_probe(P_EXTENSIBLE); break;
	case 4: fmt_size = 18; tag = 1; bits = 16; break;
	default: cb = 2 * (1 + sim_choose(8)); if (cb == 22) cb = 24;
		if (sim_chance(1, 40)) {
			/* the extension may be anything a 16-bit cb_size can describe */
			static const uint16_t bigcb[] = { 255, 1000, 4097, 30000, 65516, 65517, 0xfffe, 0xffff };
			cb = bigcb[sim_choose(8)];
			sim_probe(P_BIG_FMT);
		}
		fmt_size = 18 + cb; tag = 1; bits = 16; sim_probe(P_PADDED_FMT); break;
	}
	uint32_t align = ch * bits / 8;
	uint8_t *p = in;
	memcpy(p, "RIFF", 4); p += 4;
	uint8_t *riff_size = p; p += 4;
	memcpy(p, "WAVE", 4); p += 4;
	memcpy(p, "fmt ", 4); p += 4;
	off_fmt_size = p - in; put32(p, fmt_size); p += 4;
	put16(p, tag); p += 2;
	put16(p, ch); p += 2;
	put32(p, rate); p += 4;
	put32(p, rate * align); p += 4;
	put16(p, align); p += 2;
	put16(p, bits); p += 2;
	off_cb_size = -1;
	if (fmt_size >= 18) {
		off_cb_size = p - in; put16(p, cb); p += 2;
		if (cb == 22) {
			put16(p, bits); p += 2;
			put32(p, (1u << ch) - 1); p += 4;
			for (int i = 0; i < 16; i++)
				*p++ = 0x10 + i;
		} else {
			for (uint32_t i = 0; i < cb; i++)
				*p++ = (uint8_t)(0xe0 + i);
		}
	}
	off_fact_size = off_fact_id = -1;
	if (fact) {
		sim_probe(P_FACT);
		off_fact_id = p - in; memcpy(p, "fact", 4); p += 4;
		off_fact_size = p - in; put32(p, sim_choose(2) ? 4 : 12); p += 4;	/* spec value / librfn's own */
		put32(p, frames * ch); p += 4;
	}
	off_data_id = p - in; memcpy(p, "data", 4); p += 4;
	off_data_size = p - in; put32(p, frames * align); p += 4;
	uint32_t len = p - in;
	put32(riff_size, len - 8 + frames * align);
	return len;
}

/* independent structural walker over the full (untruncated) bytes, 64-bit arithmetic.
 * Returns 0 if the bytes are not a consistent header, otherwise its length. */
static uint64_t walk(const uint8_t *b, uint64_t n)
{
	if (n < 20 || memcmp(b, "RIFF", 4) || memcmp(b + 8, "WAVE", 4) || memcmp(b + 12, "fmt ", 4))
		return 0;
	uint64_t fmt_size = get32(b + 16);
	if (fmt_size != 16) {
		if (fmt_size < 18 || n < 38)
			return 0;
		uint64_t cb = get16(b + 36);
		if (cb != fmt_size - 18)
			return 0;	/* extension does not fill the chunk exactly: ambiguous */
	}
	uint64_t pos = 20 + fmt_size;
	if (pos + 4 > n)
		return 0;
	if (!memcmp(b + pos, "fact", 4)) {
		if (pos + 12 > n)
			return 0;
		uint64_t fs = get32(b + pos + 4);
		if (fs != 4 && fs != 12)
			return 0;	/* fact payload of another size: ambiguous */
		pos += 12;
		if (pos + 4 > n)
			return 0;
	}
	if (memcmp(b + pos, "data", 4))
		return 0;
	return pos + 8;
}

static void helpers(rf_wavheader_t *wh, bool inject)
{
	sim_budget(1000000);
	(void)rf_wavheader_validate(wh);
	(void)rf_wavheader_get_format(wh);
	if (wh->block_align == 0)
		sim_probe(P_ZERO_BLOCK_ALIGN);
	if (inject)
		sim_alloc_fail_next(1);
	char *s = rf_wavheader_tostring(wh);
	sim_alloc_fail_next(0);
	bool failed = sim_alloc_fail_fired() > 0;
	if (failed)
		sim_fault(F_ALLOC_FAIL);
	if (!s && !failed)
		sim_fail(NULL, "HELPER_FAULT:tostring_null", "rf_wavheader_tostring returned NULL without an allocation failure");
	if (s && strlen(s) > 200)
		sim_fail(NULL, "HELPER_FAULT:tostring_long", "rf_wavheader_tostring produced %zu characters", strlen(s));
	free(s);
	sim_check_sanitizer();
}

/* decode from an exact-size heap copy of the first n bytes of b */
static int decode_exact(const uint8_t *b, uint32_t n, rf_wavheader_t *wh)
{
	uint8_t *blk = malloc(n ? n : 8);
	uint8_t *p = n ? blk : blk + 8;	/* zero length: point at the redzone */
	if (n)
		memcpy(blk, b, n);
	sim_budget(1000000);
	int r = rf_wavheader_decode(p, n, wh);
	free(blk);
	sim_check_sanitizer();
	return r;
}

static void run(void)
{
	rf_wavheader_t *wh = sim_alloc(sizeof(*wh));
	bool noise = sim_chance(1, 6);
	uint32_t full_len, nmut = 0;
	bool truncated = false;

	if (noise) {
		in_len = sim_choose(129);
		for (uint32_t i = 0; i < in_len; i++)
			in[i] = sim_choose(3) ? sim_choose(256) : 0;
		if (in_len >= 12 && sim_choose(4)) {
			memcpy(in, "RIFF", 4);
			memcpy(in + 8, "WAVE", 4);
			if (in_len >= 20 && sim_choose(2)) {
				memcpy(in + 12, "fmt ", 4);
				put32(in + 16, sim_choose(2) ? 16 + sim_choose(30) : sim_bits32());
			}
			if (sim_choose(2))
				put32(in + 4, sim_bits32() | (sim_choose(2) ? 0xffff0000u : 0));
		}
		sim_fault(F_RANDOM_BYTES);
		nmut = 1;
		full_len = in_len;
	} else {
		in_len = write_reference();
		uint32_t want_mut = sim_choose(3) ? sim_choose(4) : 0;
		for (uint32_t m = 0; m < want_mut; m++) {
			sim_seg();
			uint32_t kind = sim_choose(5);
			if (kind == 4) {
				/* a chunk this decoder does not know where it expects fact or data, with any size,
				 * inside a RIFF chunk that claims to be large enough for it */
				static const char ids[][5] = { "LIST", "JUNK", "bext", "cue ", "PEAK", "fact", "data", "fmt ", "RIFF", "id3 " };
				static const uint32_t sizes[] = { 0, 4, 12, 26, 0x7fffffffu, 0x80000000u, 0xffffffccu, 0xffffffd0u,
					0xffffffe4u, 0xfffffff0u, 0xfffffff8u, 0xfffffffeu, 0xffffffffu, 0x10000u };
				int o = off_fact_id >= 0 && sim_choose(3) == 0 ? off_fact_id : off_data_id;
				memcpy(in + o, ids[sim_choose(10)], 4);
				put32(in + o + 4, sizes[sim_choose(14)]);
				if (sim_choose(2))
					put32(in + 4, sim_choose(2) ? 0xffffffffu : get32(in + o + 4));
				sim_probe(P_FOREIGN_CHUNK);
				sim_fault(F_MAGIC);
			} else if (kind == 3) {
				/* every numeric field of the fmt chunk and the data size take extreme values
				 * (sizes that decide the structure are left to the hostile-size mutation) */
				static const uint32_t ext[] = { 0, 1, 2, 0x7fff, 0x8000, 0xffff, 0x10000, 1000, 65535,
					0x7fffffffu, 0x80000000u, 0x80000001u, 0xc0000000u, 0xc4653600u, 0xfffffffeu, 0xffffffffu };
				const uint32_t ne = sizeof(ext) / sizeof(ext[0]);
				put16(in + 20, sim_choose(3) ? ext[sim_choose(ne)] : get16(in + 20));	/* format tag */
				put16(in + 22, ext[sim_choose(ne)]);	/* channels */
				put32(in + 24, ext[sim_choose(ne)]);	/* sample rate */
				put32(in + 28, ext[sim_choose(ne)]);	/* byte rate */
				put16(in + 32, ext[sim_choose(6)]);	/* block align */
				put16(in + 34, ext[sim_choose(ne)]);	/* bits per sample */
				put32(in + off_data_size, ext[sim_choose(ne)]);
				if (get32(in + off_fmt_size) >= 40 && sim_choose(2)) {
					/* the extension's own format tag (first two bytes of the GUID) */
					static const uint16_t tags[] = { 0xfffe, 0x0001, 0x0003, 0x0000, 0xffff, 0x0055 };
					put16(in + 44, tags[sim_choose(6)]);
					if (sim_choose(2))
						put16(in + 20, 0xfffe);
				}
				if (sim_choose(2))
					put32(in + 4, 0xffffffffu);	/* keep the RIFF size plausible */
				sim_fault(F_FIELD_EXTREMES);
			} else if (kind == 0) {
				static const uint32_t hostile[] = { 0, 1, 2, 12, 13, 14, 15, 16, 17, 18, 19, 20, 38, 39, 40, 41, 42,
					0x7fffffffu, 0x80000000u, 0xffffffe3u, 0xffffffe4u, 0xffffffe5u,
					0xfffffff0u, 0xfffffffeu, 0xffffffffu, 0x10000u, 0x80000012u };
				int offs[5] = { 4, off_fmt_size, off_cb_size, off_fact_size, off_data_size };
				int o = offs[sim_choose(5)];
				if (o < 0)
					o = off_fmt_size;
				uint32_t v = hostile[sim_choose(sizeof(hostile) / sizeof(hostile[0]))];
				if (o == 4 && sim_choose(2)) {
					/* near misses of the chunk-size plausibility check */
					uint32_t fs = get32(in + off_fmt_size);
					uint32_t fa = off_fact_size >= 0 ? get32(in + off_fact_size) : 0;
					v = 12 + fs + fa + sim_choose(3) - 1;
				}
				if (o == off_cb_size)
					put16(in + o, v);
				else
					put32(in + o, v);
				sim_fault(F_HOSTILE_SIZE);
			} else if (kind == 1) {
				uint32_t byte = sim_choose(in_len);
				in[byte] ^= 1u << sim_choose(8);
				sim_fault(F_BIT_FLIP);
			} else {
				int ids[5] = { 0, 8, 12, off_fact_id, off_data_id };
				int o = ids[sim_choose(5)];
				if (o < 0)
					o = 12;
				if (sim_choose(3) == 0 && o == off_data_id)
					memcpy(in + o, "fact", 4);	/* a second/unexpected fact chunk */
				else
					in[o + sim_choose(4)] ^= 0x20;
				sim_fault(F_MAGIC);
			}
			nmut++;
		}
		sim_seg();
		if (sim_chance(1, 4)) {
			uint32_t g = 1 + sim_choose(24);
			for (uint32_t i = 0; i < g; i++)
				in[in_len++] = sim_choose(256);
			sim_fault(F_TAIL_GARBAGE);
		} else if (sim_chance(1, 50)) {
			/* the header at the front of a long stream: declared lengths beyond the longest header */
			static const uint32_t totals[] = { 65592, 65593, 65594, 65595, 65600, 70000, 131072, 1u << 20 };
			uint32_t total = totals[sim_choose(8)] + (sim_choose(2) ? 0 : sim_choose(64));
			uint8_t fill = sim_choose(2) ? 0 : (uint8_t)sim_choose(256);
			if (total > in_len) {
				memset(in + in_len, fill, total - in_len);
				in_len = total;
				sim_fault(F_TAIL_GARBAGE);
			}
		}
		full_len = in_len;
		if (sim_chance(1, 3)) {
			in_len = sim_choose(in_len + 1);
			if (in_len < full_len) {
				truncated = true;
				sim_fault(F_TRUNCATE);
			}
		}
	}
	if (in_len == 0)
		sim_probe(P_LEN_ZERO);
	if (in_len > 65593)
		sim_probe(P_LEN_OVER_65593);

	uint64_t L = walk(in, full_len);	/* structural length if consistent, else 0 */
	sim_seg();
	bool inject = sim_chance(1, 8);

	uint64_t ih = 0xcbf29ce484222325ull;
	for (uint32_t i = 0; i < in_len; i++)
		ih = (ih ^ in[i]) * 0x100000001b3ull;
	sim_ev("input", in_len, (int64_t)ih, nmut);
	if (sim_tracing()) {
		char hex[3 * 512 + 1];
		uint32_t shown = in_len < 200 ? in_len : 200;
		for (uint32_t i = 0; i < shown; i++)
			snprintf(hex + 3 * i, 4, "%02x ", in[i]);
		hex[shown ? 3 * shown - 1 : 0] = 0;
		sim_note("input bytes: %.480s%s", hex, in_len > 160 ? "..." : "");
	}
	int r = decode_exact(in, in_len, wh);
	sim_ops(1);
	sim_ev("decode", in_len, r, (int64_t)L);
	helpers(wh, inject);

	if (r < 0) {
		sim_probe(P_REJECTED);
		if (!nmut && !truncated)
			sim_fail(NULL, "REJECTED_VALID", "a well-formed %u-byte header was rejected with %d", in_len, r);
	} else if ((uint32_t)r > in_len) {
		sim_probe(P_INCOMPLETE);
		if (L && L <= in_len)
			sim_fail(NULL, "BAD_LENGTH:wants_more",
				 "decode asked for %d bytes but the %u supplied bytes contain a complete, consistent %llu-byte header",
				 r, in_len, (unsigned long long)L);
	} else {
		/* accepted: r is claimed to be the exact header length */
		sim_probe(P_ACCEPTED);
		if (nmut)
			sim_probe(P_ACCEPTED_MUTATED);
		if (r < RF_WAVHEADER_MIN_SIZE)
			sim_fail(NULL, "BAD_LENGTH:below_min",
				 "decode of %u bytes reported success with length %d < RF_WAVHEADER_MIN_SIZE (fmt chunk size field 0x%08x)",
				 in_len, r, in_len >= 20 ? get32(in + 16) : 0);
		if (L) {
			sim_probe(P_CONSISTENT_CHECKED);
			if (L > in_len)
				sim_fail(NULL, "TRUNCATION_ACCEPTED",
					 "a consistent %llu-byte header truncated to %u bytes was accepted (result %d)",
					 (unsigned long long)L, in_len, r);
			if ((uint64_t)r != L)
				sim_fail(NULL, "BAD_LENGTH:structural",
					 "decode reported %d bytes; the chunk walk gives %llu", r, (unsigned long long)L);
		}
		rf_wavheader_t *w2 = sim_alloc(sizeof(*w2));
		int r2 = decode_exact(in, r, w2);
		if (r2 != r)
			sim_fail(NULL, "BAD_LENGTH:not_exact",
				 "decode reported length %d, but given exactly those %d bytes it returns %d", r, r, r2);
		/* truncation at any point never yields success */
		uint32_t extra = 0;
		for (uint32_t k = 0; k < (uint32_t)r; k++) {
			if ((uint32_t)r > 4096 && k >= 128 && k + 128 < (uint32_t)r) {
				/* a very long header: both ends and 64 tape-chosen points in between */
				if (extra++ >= 64) {
					k = (uint32_t)r - 129;
					continue;
				}
				k += sim_choose(((uint32_t)r - 128 - k) / (65 - extra) + 1);
			}
			int rk = decode_exact(in, k, w2);
			sim_probe(P_PREFIXES);
			if (rk >= 0 && (uint32_t)rk <= k)
				sim_fail(NULL, "TRUNCATION_ACCEPTED",
					 "header of %d bytes truncated to %u bytes was accepted with length %d", r, k, rk);
			if (k % 7 == 3)
				helpers(w2, false);
		}
		/* the incremental reader the contract exists for */
		uint32_t have = RF_WAVHEADER_MIN_SIZE;
		for (int steps = 0; ; steps++) {
			if (have > in_len)
				have = in_len;
			int ri = decode_exact(in, have, w2);
			sim_probe(P_INCREMENTAL_STEPS);
			if (ri >= 0 && (uint32_t)ri <= have) {
				if (ri != r)
					sim_fail(NULL, "BAD_LENGTH:incremental",
						 "incremental reading settled on %d bytes, one-shot decoding on %d", ri, r);
				break;
			}
			if (ri < 0 && nmut)
				break;	/* a corrupted header may be rejected at a prefix: allowed */
			if (ri < 0 || steps > 70000 || have == in_len)
				sim_fail(NULL, "BAD_LENGTH:incremental",
					 "incremental reader did not converge (have %u, result %d, one-shot %d)", have, ri, r);
			/* read on: either everything asked for or a tape-chosen part of it */
			uint32_t want = (uint32_t)ri - have;
			have += sim_choose(2) ? want : 1 + sim_choose(want);
		}
	}
	sim_ops(1);
}

const sim_harness_t sim_harness = {
	.name = "h_wav",
	.flavour = "asan",
	.run = run,
	.fault_names = fault_names,
	.probe_names = probe_names,
	.min_ops = 1,
	.rule = "one case = one header from a reference writer (PCM16/32, float+fact, extensible, padded fmt "
		"variants) after a tape-chosen fault sequence (hostile size fields, bit flips, magic "
		"corruption, foreign chunk ids, tail garbage up to 1 MiB, truncation; fmt extensions up to 65535 bytes), or 0-128 bytes of noise, decoded from exact-size "
		"heap blocks; for accepted inputs every proper prefix and an incremental reader are tried "
		"as well; non-trivial = at least one stream fault applied or an input accepted; distinct = "
		"distinct hash of (input bytes, length, result, structural length)",
	.real = "librfn/wavheader.c (decode, validate, get_format, tostring), pack.c, string.c",
	.stub = "malloc wrapped for failure injection in rf_wavheader_tostring",
};

int main(int argc, char **argv)
{
	return sim_main(argc, argv);
}
