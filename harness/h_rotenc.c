/*
 * h_rotenc - C19: rotary encoder under a simulated shaft and signal line.
 *
 * Environment: a shaft position in quarter steps moving with momentum,
 * sampled into the 2-bit Gray state.  Faults on the line: bounce, repeated
 * samples, missed samples (two-bit jumps), reversals, random garbage.
 * Oracle: unbounded integer position derived from the *state sequence itself*
 * by the rule in the property statement.
 */
#include "sim.h"

#include <string.h>
#include <librfn/rotenc.h>

enum { F_BOUNCE, F_REPEAT, F_MISSED, F_REVERSAL, F_RANDOM_STATE, F_PERIODIC };
static const char *const fault_names[] = { "bounce", "repeat_sample", "missed_sample",
					   "reversal", "random_state", "periodic_signal", NULL };
enum { P_WRAP8_UP, P_WRAP8_DOWN, P_WRAP16_UP, P_WRAP16_DOWN, P_NEG, P_OFF_DETENT_READ,
       P_LATCH, P_LONG_WALK, P_LONG_DWELL, P_LONG_OFF_DETENT, P_NOT_READ, P_SECOND_ENCODER };
static const char *const probe_names[] = { "crossed_256_clicks_up", "crossed_256_clicks_down",
					   "crossed_16384_clicks_up", "crossed_16384_clicks_down",
					   "position_negative", "read_while_off_detent",
					   "latched_at_detent", "walk_over_10000_samples",
					   "same_state_over_250_samples", "over_700_samples_without_detent",
					   "sample_decoded_without_reading_the_counts", "second_encoder_polled_in_between", NULL };

static const uint8_t gray[4] = { 0, 1, 3, 2 };	/* clockwise order */
static const uint8_t gidx[4] = { 0, 1, 3, 2 };	/* state -> index  */

static int64_t fdiv4(int64_t p)
{
	return p >= 0 ? p / 4 : -((-p + 3) / 4);
}

/* one encoder and its oracle; a run may have two, fed in turn (they share nothing) */
typedef struct {
	rotenc_t *r;
	int64_t mpos;		/* oracle: position from the state sequence */
	int64_t latched;	/* oracle: floor(mpos/4) at the last detent */
	uint8_t mstate;
	bool jumped;		/* a two-bit jump has happened in this run  */
	int id;
} enc_t;
static enc_t enc[2];
static uint64_t nsamples;

static void feed_enc(enc_t *e, uint8_t st, bool check)
{
	int d = (gidx[st] - gidx[e->mstate]) & 3;
	int64_t before = fdiv4(e->mpos);
	if (d == 1)
		e->mpos++;
	else if (d == 3)
		e->mpos--;
	else if (d == 2)
		e->jumped = true;
	e->mstate = st;
	if (st == 0) {
		e->latched = fdiv4(e->mpos);
		sim_probe(P_LATCH);
	}
	int64_t after = fdiv4(e->mpos);
	if (before != after) {
		if ((after & 255) == 0 && after > before)
			sim_probe(P_WRAP8_UP);
		if ((before & 255) == 0 && after < before)
			sim_probe(P_WRAP8_DOWN);
		if ((after & 16383) == 0 && after > before)
			sim_probe(P_WRAP16_UP);
		if ((before & 16383) == 0 && after < before)
			sim_probe(P_WRAP16_DOWN);
	}
	if (e->mpos < 0)
		sim_probe(P_NEG);

	sim_budget(10000);
	ONCE(2, rotenc_decode(ARG(e->r), ARG(st)));
	nsamples++;
	sim_ops(1);
	if (!check) {
		sim_probe(P_NOT_READ);
		return;
	}

	/* the two readings are taken in either order, and sometimes only one of them */
	uint32_t how = sim_choose(4);
	unsigned c8 = 0, c14 = 0;
	if (how == 1)
		c14 = ONCE_V(1, rotenc_count14(ARG(e->r)));
	if (how != 3)
		c8 = ONCE_V(1, rotenc_count(ARG(e->r)));
	if (how != 1 && how != 2)
		c14 = ONCE_V(1, rotenc_count14(ARG(e->r)));
	bool have8 = how != 3, have14 = how != 2;
	sim_ev("s", st + 4 * e->id, have8 ? (int)c8 : -1, have14 ? (int)c14 : -1);
	if (st != 0)
		sim_probe(P_OFF_DETENT_READ);
	if (have8 && c8 != (unsigned)(e->latched & 255))
		sim_fail(NULL, "COUNT8",
			 "after sample %llu (state %u): rotenc_count=%u, latched position %lld (mod 256 = %lld)",
			 (unsigned long long)nsamples, st, c8, (long long)e->latched,
			 (long long)(e->latched & 255));
	if (have14 && c14 != (unsigned)(e->latched & 16383))
		sim_fail(NULL, "COUNT14",
			 "after sample %llu (state %u): rotenc_count14=%u, latched position %lld (mod 16384 = %lld), live quarter-steps %lld",
			 (unsigned long long)nsamples, st, c14, (long long)e->latched,
			 (long long)(e->latched & 16383), (long long)e->mpos);
	if (have8 && have14 && (c14 & 255) != c8)
		sim_fail(NULL, "DISAGREE", "count14=%u and count=%u differ in low 8 bits", c14, c8);
	if (have14 && !e->jumped) {
		int diff = (int)((c14 - (unsigned)(fdiv4(e->mpos) & 16383)) & 16383);
		if (diff > 8192)
			diff -= 16384;
		if (diff < -1 || diff > 1)
			sim_fail(NULL, "NEAR",
				 "count14=%u but true position is %lld clicks (no invalid jump so far)",
				 c14, (long long)fdiv4(e->mpos));
	}
	sim_check_sanitizer();
}

static uint32_t read_div;	/* readings are taken after one sample in read_div (1 = after every one) */
static bool two;		/* a second, unrelated encoder is polled in between */
static int64_t shaft2;

static void feed(uint8_t st, bool check)
{
	if (check && read_div > 1)
		check = sim_choose(read_div) == 0;
	feed_enc(&enc[0], st, check);
	if (two && sim_choose(2)) {
		/* the other knob: its own walk, bounce and garbage */
		uint32_t v = sim_choose(8);
		if (v < 5)
			shaft2 += 1;
		else if (v == 5)
			shaft2 -= 1;
		else if (v == 6)
			shaft2 += 2;
		sim_probe(P_SECOND_ENCODER);
		feed_enc(&enc[1], gray[shaft2 & 3], sim_choose(2));
	}
}

static void run(void)
{
	static const uint32_t starts[] = { 0, 0, 0, 3, 1019, 1021, 1023, 1024, 1027, 2047,
					   32767, 32768, 65531, 65533, 65535, 65536, 65539,
					   131071, 66559 };
	memset(enc, 0, sizeof(enc));
	enc[0].r = sim_alloc(sizeof(rotenc_t));	/* exact-size heap block, zero = ROTENC_VAR_INIT */
	enc[1].r = sim_alloc(sizeof(rotenc_t));
	enc[1].id = 1;
	nsamples = 0;
	shaft2 = 0;
	read_div = 1;
	two = false;

	/* header: scenario shape */
	uint32_t mode = sim_choose(4);	/* 0,1,2 = shaft; 3 = random states */
	uint32_t start = starts[sim_choose(sizeof(starts) / sizeof(starts[0]))];
	int dir = sim_choose(2) ? -1 : 1;
	uint32_t len = 20 + sim_choose(381);
	if (sim_thorough() && sim_chance(1, 400))
		len = 200000;
	if (len > 10000)
		sim_probe(P_LONG_WALK);
	/* fault rates per 64 samples, drawn per run (swarm) */
	uint32_t w_repeat = sim_choose(2) ? sim_choose(16) : 0;
	uint32_t w_bounce = sim_choose(2) ? sim_choose(24) : 0;
	uint32_t w_rev = sim_choose(2) ? sim_choose(12) : 0;
	uint32_t w_miss = sim_choose(3) == 1 ? sim_choose(8) : 0;
	uint32_t w_rand = sim_choose(4) == 1 ? sim_choose(6) : 0;
	uint32_t w_periodic = sim_choose(3) == 1 ? 1 + sim_choose(3) : 0;	/* per 256 samples */
	sim_ev("hdr", mode, start, dir);
	static const uint32_t divs[] = { 1, 1, 2, 8 };
	uint32_t rd = divs[sim_choose(4)];
	bool tw = sim_choose(3) == 0;

	/* drive quickly to the start position through the public API (checked at the end) */
	int64_t shaft = 0;
	for (uint32_t i = 0; i < start; i++) {
		shaft += dir;
		feed(gray[shaft & 3], i + 1 == start);
	}

	read_div = rd;	/* (the drive to the start position above is a single encoder read once at its end) */
	two = tw;
	for (uint32_t i = 0; i < len && !sim_tape_done(); i++) {
		sim_seg();
		uint8_t st;
		if (w_periodic && sim_choose(256) < w_periodic) {
			/* a periodic signal: a resting knob polled for a long time, a fast spin aliased by the
			 * sampling rate, mains hum on the lines - a pattern of 1-4 states many times over */
			static const uint16_t reps[] = { 2, 3, 10, 100, 254, 255, 256, 257, 300, 768, 1024, 2000 };
			uint8_t pat[4];
			uint32_t plen = 1 + sim_choose(4), n = reps[sim_choose(12)];
			for (uint32_t k = 0; k < plen; k++)
				pat[k] = sim_choose(4);
			sim_fault(F_PERIODIC);
			if (plen == 1 && n > 250)
				sim_probe(P_LONG_DWELL);
			if (n * plen > 700 && !(pat[0] == 0 || (plen > 1 && pat[1] == 0) || (plen > 2 && pat[2] == 0) || (plen > 3 && pat[3] == 0)))
				sim_probe(P_LONG_OFF_DETENT);
			for (uint32_t j = 0; j < n; j++)
				for (uint32_t k = 0; k < plen; k++)
					feed(pat[k], true);
			shaft = (shaft & ~3ll) | gidx[enc[0].mstate];
			continue;
		}
		if (mode == 3) {
			st = sim_choose(4);
			sim_fault(F_RANDOM_STATE);
		} else {
			uint32_t v = sim_choose(64);
			if (v == 0 || v > w_repeat + w_bounce + w_rev + w_miss + w_rand) {
				shaft += dir;			/* plain momentum */
			} else if (v <= w_repeat) {
				sim_fault(F_REPEAT);
			} else if (v <= w_repeat + w_bounce) {
				shaft -= dir;			/* bounce back one quarter step */
				sim_fault(F_BOUNCE);
			} else if (v <= w_repeat + w_bounce + w_rev) {
				dir = -dir;
				shaft += dir;
				sim_fault(F_REVERSAL);
			} else if (v <= w_repeat + w_bounce + w_rev + w_miss) {
				shaft += 2 * dir;		/* a sample was missed */
				sim_fault(F_MISSED);
			} else {
				shaft = (shaft & ~3ll) | sim_choose(4);
				sim_fault(F_RANDOM_STATE);
			}
			st = gray[shaft & 3];
		}
		feed(st, true);
	}
	sim_ticks(nsamples);
}

const sim_harness_t sim_harness = {
	.name = "h_rotenc",
	.flavour = "asan",
	.run = run,
	.fault_names = fault_names,
	.probe_names = probe_names,
	.min_ops = 20,
	.rule = "one case = one seeded walk of a simulated shaft (start position next to a wrap "
		"point, momentum, per-run fault rates for bounce/repeat/missed-sample/reversal/"
		"garbage, periodic patterns of 1-4 states repeated 2-2000 times) decoded sample by sample, the counts read after every sample or only now and then and in either order, sometimes with a second unrelated encoder polled in between; non-trivial = at least 20 samples and at "
		"least one line fault or wrap/latch probe fired; distinct = distinct hash of the "
		"(state, count, count14) event sequence",
	.real = "librfn/rotenc.c, rotenc.h (rotenc_decode, rotenc_count, rotenc_count14)",
	.stub = "the shaft and signal line (simulated environment)",
};

int main(int argc, char **argv)
{
	return sim_main(argc, argv);
}
