/*
 * h_rotenc - C19: rotary encoder under a simulated shaft and signal line.
 *
 * Environment: a shaft position in quarter steps moving with momentum,
 * sampled into the 2-bit Gray state.  Faults on the line: bounce, repeated
 * samples, missed samples (two-bit jumps), reversals, random garbage.
 * Oracle: unbounded integer position derived from the *state sequence itself*
 * by the rule in the property statement.
 */
#include "sim.h"

#include <librfn/rotenc.h>

enum { F_BOUNCE, F_REPEAT, F_MISSED, F_REVERSAL, F_RANDOM_STATE, F_PERIODIC };
static const char *const fault_names[] = { "bounce", "repeat_sample", "missed_sample",
					   "reversal", "random_state", "periodic_signal", NULL };
enum { P_WRAP8_UP, P_WRAP8_DOWN, P_WRAP16_UP, P_WRAP16_DOWN, P_NEG, P_OFF_DETENT_READ,
       P_LATCH, P_LONG_WALK, P_LONG_DWELL, P_LONG_OFF_DETENT };
static const char *const probe_names[] = { "crossed_256_clicks_up", "crossed_256_clicks_down",
					   "crossed_16384_clicks_up", "crossed_16384_clicks_down",
					   "position_negative", "read_while_off_detent",
					   "latched_at_detent", "walk_over_10000_samples",
					   "same_state_over_250_samples", "over_700_samples_without_detent", NULL };

static const uint8_t gray[4] = { 0, 1, 3, 2 };	/* clockwise order */
static const uint8_t gidx[4] = { 0, 1, 3, 2 };	/* state -> index  */

static int64_t fdiv4(int64_t p)
{
	return p >= 0 ? p / 4 : -((-p + 3) / 4);
}

static rotenc_t *r;
static int64_t mpos;		/* oracle: position from the state sequence */
static int64_t latched;		/* oracle: floor(mpos/4) at the last detent */
static uint8_t mstate;
static bool jumped;		/* a two-bit jump has happened in this run  */
static uint64_t nsamples;

static void feed(uint8_t st, bool check)
{
	int d = (gidx[st] - gidx[mstate]) & 3;
	int64_t before = fdiv4(mpos);
	if (d == 1)
		mpos++;
	else if (d == 3)
		mpos--;
	else if (d == 2)
		jumped = true;
	mstate = st;
	if (st == 0) {
		latched = fdiv4(mpos);
		sim_probe(P_LATCH);
	}
	int64_t after = fdiv4(mpos);
	if (before != after) {
		if ((after & 255) == 0 && after > before)
			sim_probe(P_WRAP8_UP);
		if ((before & 255) == 0 && after < before)
			sim_probe(P_WRAP8_DOWN);
		if ((after & 16383) == 0 && after > before)
			sim_probe(P_WRAP16_UP);
		if ((before & 16383) == 0 && after < before)
			sim_probe(P_WRAP16_DOWN);
	}
	if (mpos < 0)
		sim_probe(P_NEG);

	sim_budget(10000);
	ONCE(2, rotenc_decode(ARG(r), ARG(st)));
	nsamples++;
	sim_ops(1);
	if (!check)
		return;

	unsigned c8 = ONCE_V(1, rotenc_count(ARG(r)));
	unsigned c14 = ONCE_V(1, rotenc_count14(ARG(r)));
	sim_ev("s", st, c8, c14);
	if (st != 0)
		sim_probe(P_OFF_DETENT_READ);
	if (c8 != (unsigned)(latched & 255))
		sim_fail(NULL, "COUNT8",
			 "after sample %llu (state %u): rotenc_count=%u, latched position %lld (mod 256 = %lld)",
			 (unsigned long long)nsamples, st, c8, (long long)latched,
			 (long long)(latched & 255));
	if (c14 != (unsigned)(latched & 16383))
		sim_fail(NULL, "COUNT14",
			 "after sample %llu (state %u): rotenc_count14=%u, latched position %lld (mod 16384 = %lld), live quarter-steps %lld",
			 (unsigned long long)nsamples, st, c14, (long long)latched,
			 (long long)(latched & 16383), (long long)mpos);
	if ((c14 & 255) != c8)
		sim_fail(NULL, "DISAGREE", "count14=%u and count=%u differ in low 8 bits", c14, c8);
	if (!jumped) {
		int diff = (int)((c14 - (unsigned)(fdiv4(mpos) & 16383)) & 16383);
		if (diff > 8192)
			diff -= 16384;
		if (diff < -1 || diff > 1)
			sim_fail(NULL, "NEAR",
				 "count14=%u but true position is %lld clicks (no invalid jump so far)",
				 c14, (long long)fdiv4(mpos));
	}
	sim_check_sanitizer();
}

static void run(void)
{
	static const uint32_t starts[] = { 0, 0, 0, 3, 1019, 1021, 1023, 1024, 1027, 2047,
					   32767, 32768, 65531, 65533, 65535, 65536, 65539,
					   131071, 66559 };
	r = sim_alloc(sizeof(*r));	/* exact-size heap block, zero = ROTENC_VAR_INIT */
	mpos = 0;
	latched = 0;
	mstate = 0;
	jumped = false;
	nsamples = 0;

	/* header: scenario shape */
	uint32_t mode = sim_choose(4);	/* 0,1,2 = shaft; 3 = random states */
	uint32_t start = starts[sim_choose(sizeof(starts) / sizeof(starts[0]))];
	int dir = sim_choose(2) ? -1 : 1;
	uint32_t len = 20 + sim_choose(381);
	if (sim_thorough() && sim_chance(1, 400))
		len = 200000;
	if (len > 10000)
		sim_probe(P_LONG_WALK);
	/* fault rates per 64 samples, drawn per run (swarm) */
	uint32_t w_repeat = sim_choose(2) ? sim_choose(16) : 0;
	uint32_t w_bounce = sim_choose(2) ? sim_choose(24) : 0;
	uint32_t w_rev = sim_choose(2) ? sim_choose(12) : 0;
	uint32_t w_miss = sim_choose(3) == 1 ? sim_choose(8) : 0;
	uint32_t w_rand = sim_choose(4) == 1 ? sim_choose(6) : 0;
	uint32_t w_periodic = sim_choose(3) == 1 ? 1 + sim_choose(3) : 0;	/* per 256 samples */
	sim_ev("hdr", mode, start, dir);

	/* drive quickly to the start position through the public API (checked at the end) */
	int64_t shaft = 0;
	for (uint32_t i = 0; i < start; i++) {
		shaft += dir;
		feed(gray[shaft & 3], i + 1 == start);
	}

	for (uint32_t i = 0; i < len && !sim_tape_done(); i++) {
		sim_seg();
		uint8_t st;
		if (w_periodic && sim_choose(256) < w_periodic) {
			/* a periodic signal: a resting knob polled for a long time, a fast spin aliased by the
			 * sampling rate, mains hum on the lines - a pattern of 1-4 states many times over */
			static const uint16_t reps[] = { 2, 3, 10, 100, 254, 255, 256, 257, 300, 768, 1024, 2000 };
			uint8_t pat[4];
			uint32_t plen = 1 + sim_choose(4), n = reps[sim_choose(12)];
			for (uint32_t k = 0; k < plen; k++)
				pat[k] = sim_choose(4);
			sim_fault(F_PERIODIC);
			if (plen == 1 && n > 250)
				sim_probe(P_LONG_DWELL);
			if (n * plen > 700 && !(pat[0] == 0 || (plen > 1 && pat[1] == 0) || (plen > 2 && pat[2] == 0) || (plen > 3 && pat[3] == 0)))
				sim_probe(P_LONG_OFF_DETENT);
			for (uint32_t j = 0; j < n; j++)
				for (uint32_t k = 0; k < plen; k++)
					feed(pat[k], true);
			shaft = (shaft & ~3ll) | gidx[mstate];
			continue;
		}
		if (mode == 3) {
			st = sim_choose(4);
			sim_fault(F_RANDOM_STATE);
		} else {
			uint32_t v = sim_choose(64);
			if (v == 0 || v > w_repeat + w_bounce + w_rev + w_miss + w_rand) {
				shaft += dir;			/* plain momentum */
			} else if (v <= w_repeat) {
				sim_fault(F_REPEAT);
			} else if (v <= w_repeat + w_bounce) {
				shaft -= dir;			/* bounce back one quarter step */
				sim_fault(F_BOUNCE);
			} else if (v <= w_repeat + w_bounce + w_rev) {
				dir = -dir;
				shaft += dir;
				sim_fault(F_REVERSAL);
			} else if (v <= w_repeat + w_bounce + w_rev + w_miss) {
				shaft += 2 * dir;		/* a sample was missed */
				sim_fault(F_MISSED);
			} else {
				shaft = (shaft & ~3ll) | sim_choose(4);
				sim_fault(F_RANDOM_STATE);
			}
			st = gray[shaft & 3];
		}
		feed(st, true);
	}
	sim_ticks(nsamples);
}

const sim_harness_t sim_harness = {
	.name = "h_rotenc",
	.flavour = "asan",
	.run = run,
	.fault_names = fault_names,
	.probe_names = probe_names,
	.min_ops = 20,
	.rule = "one case = one seeded walk of a simulated shaft (start position next to a wrap "
		"point, momentum, per-run fault rates for bounce/repeat/missed-sample/reversal/"
		"garbage, periodic patterns of 1-4 states repeated 2-2000 times) decoded sample by sample; non-trivial = at least 20 samples and at "
		"least one line fault or wrap/latch probe fired; distinct = distinct hash of the "
		"(state, count, count14) event sequence",
	.real = "librfn/rotenc.c, rotenc.h (rotenc_decode, rotenc_count, rotenc_count14)",
	.stub = "the shaft and signal line (simulated environment)",
};

int main(int argc, char **argv)
{
	return sim_main(argc, argv);
}
