/*
 * h_fibre - C01, C02, C03(a): the fibre scheduler against a lock-step
 * reference scheduler, in sequential mode (interrupt-context calls happen
 * only between API calls; the interleaved part of C03/C06 is h_irq).
 *
 * Real code: fibre.c, list.c, messageq.c, util.c (cyclecmp32), protothread
 * macros inside the fibre bodies.  The harness is the main loop, the clock
 * and the fibre bodies.  Library state is reset between runs by segment
 * restore (no hook in /repo).
 *
 * The reference model is written from the property statements (DESIGN.md 4,
 * C01): FIFO run queue, FIFO of accepted atomic requests, timers as
 * (fibre, due, registration sequence), no fast path.
 */
#include "sim.h"

#include <stdlib.h>
#include <string.h>
#include <librfn/fibre.h>
#include <librfn/util.h>

enum { F_KILL, F_SPURIOUS_RUN, F_QUEUE_FULL, F_CLOCK_STALL, F_CLOCK_JUMP, F_CLOCK_WRAP,
       F_TIMER_CANCEL };
static const char *const fault_names[] = { "kill", "spurious_run", "queue_full", "clock_stall",
					   "clock_jump", "clock_wrap", "timer_cancelled_by_run_or_kill",
					   NULL };
enum { P_COALESCED, P_RESTART, P_ATOMIC_MULTI, P_YIELD_REQUEUE_BEHIND, P_FAST_PATH, P_TIMER_FIRED,
       P_TIMERS_SAME_PASS, P_TIMER_TIE, P_TIMEOUT_IMMEDIATE, P_WRAP_0, P_WRAP_80, P_IDLE_PASS,
       P_KILL_TRUE, P_KILL_CURRENT, P_SELF_RUN, P_WAKE_NOW, P_WAKE_TIMER, P_WAKE_UNBOUNDED,
       P_SHIFT_CHECKED, P_TIMER_AND_YIELDER, P_ATOMIC_FROM_FIBRE, P_EXIT_WITH_TIMER, P_MODEL_FORKED,
       P_WRAP_BASE_IN_C01, P_MARATHON, P_SOLO_LEAP, P_CROWD, P_RUNQ_CROWD, P_CROWD_MIDDLE };
static const char *const probe_names[] = {
	"reasons_coalesced", "exited_fibre_restarted", "several_atomic_requests_drained_together",
	"yielder_requeued_behind_others", "single_yielder_fast_path", "timer_fired",
	"several_timers_expired_in_one_pass", "equal_due_times", "timeout_already_due",
	"time_crossed_ffffffff_to_0", "time_crossed_7fffffff_to_80000000", "idle_pass",
	"kill_withdrew_something", "kill_of_current_fibre", "fibre_ran_itself",
	"wakeup_is_now", "wakeup_is_timer", "wakeup_is_unbounded", "shift_invariance_compared",
	"timer_expired_in_pass_that_requeued_a_yielder", "atomic_request_from_inside_fibre",
	"exit_or_fail_with_timer_pending", "queued_fibre_called_fibre_timeout_model_forked",
	"c01_history_on_wrap_placed_time_base", "marathon_of_300_to_131100_requests_and_passes",
	"clock_leapt_most_of_2^31_while_a_lone_fibre_yielded",
	"crowd_of_1000_to_131072_sleeping_fibres", "run_queue_of_255_to_700_fibres_behind_a_yielder",
	"crowd_member_sleeping_until_the_middle_of_the_pending_due_times", NULL };

#define MAXF 14
#define AQ_DEPTH 8

/* ---- the real fibres ---------------------------------------------------- */

typedef struct {
	fibre_t fibre;
	int id;
} tf_t;

static tf_t *tf[MAXF];
static int nf;

/* ---- reference model ---------------------------------------------------- */

static struct {
	int runq[MAXF + 2], nrun;
	int atomicq[AQ_DEPTH + 34], natomic;
	bool queued[MAXF];
	bool has_timer[MAXF];
	uint32_t due[MAXF];
	uint64_t tseq[MAXF], tctr;
	bool fresh[MAXF];
	int current;		/* -1 = none */
	int cur_state;
	uint32_t now;
	/* bookkeeping for classification only */
	bool expired_now[MAXF];
	bool cancelled[MAXF];
	bool drained_multi[MAXF];
	int dispatches[MAXF];
} M;

/* Where the statement leaves two behaviours open (a fibre that is already queued calls
 * fibre_timeout with a future due time: is a timer registered as well?) the reference forks:
 * up to two candidate models run in lock step and a model that disagrees with an observation
 * is dropped.  M is always the working copy of the primary surviving model. */
static __typeof__(M) MS[2];
static bool alive[2];

static int primary(void)
{
	return alive[0] ? 0 : 1;
}

static void m_run_internal(int x)
{
	if (M.queued[x]) {
		sim_probe(P_COALESCED);
		return;
	}
	if (M.has_timer[x]) {
		M.has_timer[x] = false;
		M.cancelled[x] = true;
		sim_fault(F_TIMER_CANCEL);
	}
	M.queued[x] = true;
	M.runq[M.nrun++] = x;
}

static void m_drain(void)
{
	if (M.natomic >= 2) {
		sim_probe(P_ATOMIC_MULTI);
		memset(M.drained_multi, 0, sizeof(M.drained_multi));
		for (int i = 0; i < M.natomic; i++)
			M.drained_multi[M.atomicq[i]] = true;
	}
	for (int i = 0; i < M.natomic; i++)
		m_run_internal(M.atomicq[i]);
	M.natomic = 0;
}

static void m_run(int x)
{
	m_drain();
	m_run_internal(x);
}

static bool m_kill(int x)
{
	m_drain();
	bool res = M.queued[x] || M.has_timer[x];
	if (M.queued[x]) {
		int j = 0;
		for (int i = 0; i < M.nrun; i++)
			if (M.runq[i] != x)
				M.runq[j++] = M.runq[i];
		M.nrun = j;
		M.queued[x] = false;
	}
	if (M.has_timer[x]) {
		M.has_timer[x] = false;
		M.cancelled[x] = true;
		sim_fault(F_TIMER_CANCEL);
	}
	return res;
}

/* Beyond 8 undrained requests the statement is silent about the return value (that is the edge
 * of its scope): the reference follows what the library answered.  A request the library
 * accepted must then be honoured like any other. */
static bool real_accepted_overflow;

static bool m_run_atomic(int x)
{
	if (M.natomic >= AQ_DEPTH && !(real_accepted_overflow && M.natomic < AQ_DEPTH + 32))
		return false;
	M.atomicq[M.natomic++] = x;
	return true;
}

static bool variant_b;	/* model B: a queued fibre's fibre_timeout registers a timer all the same */

static bool m_timeout(uint32_t d)
{
	int c = M.current;
	if ((int32_t)(d - M.now) <= 0)
		return true;
	if (!M.queued[c] || variant_b) {
		M.has_timer[c] = true;
		M.due[c] = d;
		M.tseq[c] = ++M.tctr;
		M.cancelled[c] = false;
	}
	return false;
}

/* first half of a pass: everything up to and including the choice of the fibre to dispatch */
static int m_pass_begin(uint32_t t)
{
	M.now = t;
	memset(M.expired_now, 0, sizeof(M.expired_now));
	m_drain();
	bool requeued_yielder = false;
	if (M.current >= 0) {
		if (M.cur_state == FIBRE_STATE_YIELDED) {
			if (M.nrun > 0 && !M.queued[M.current])
				sim_probe(P_YIELD_REQUEUE_BEHIND);
			else if (M.nrun == 0)
				sim_probe(P_FAST_PATH);
			requeued_yielder = true;
			m_run_internal(M.current);
		} else if (M.cur_state == FIBRE_STATE_EXITED || M.cur_state == FIBRE_STATE_FAILED) {
			M.fresh[M.current] = true;
		}
	}
	/* expired timers in (due, registration) order */
	int nexp = 0;
	for (;;) {
		int best = -1;
		for (int i = 0; i < nf; i++) {
			if (!M.has_timer[i] || (int32_t)(M.due[i] - t) > 0)
				continue;
			if (best < 0 || (int32_t)(M.due[i] - M.due[best]) < 0 ||
			    (M.due[i] == M.due[best] && M.tseq[i] < M.tseq[best]))
				best = i;
		}
		if (best < 0)
			break;
		for (int i = 0; i < nf; i++)
			if (i != best && M.has_timer[i] && M.due[i] == M.due[best] &&
			    (int32_t)(M.due[i] - t) <= 0)
				sim_probe(P_TIMER_TIE);
		M.has_timer[best] = false;
		M.expired_now[best] = true;
		if (!M.queued[best]) {
			M.queued[best] = true;
			M.runq[M.nrun++] = best;
		}
		nexp++;
		sim_probe(P_TIMER_FIRED);
	}
	if (nexp >= 2)
		sim_probe(P_TIMERS_SAME_PASS);
	if (nexp && requeued_yielder)
		sim_probe(P_TIMER_AND_YIELDER);
	if (M.nrun == 0) {
		M.current = -1;
		sim_probe(P_IDLE_PASS);
		return -1;
	}
	int x = M.runq[0];
	memmove(M.runq, M.runq + 1, (--M.nrun) * sizeof(int));
	M.queued[x] = false;
	M.current = x;
	return x;
}

static uint32_t m_wakeup(void)
{
	if (M.nrun > 0 || M.natomic > 0 || (M.current >= 0 && M.cur_state == FIBRE_STATE_YIELDED)) {
		sim_probe(P_WAKE_NOW);
		return M.now;
	}
	int best = -1;
	for (int i = 0; i < nf; i++)
		if (M.has_timer[i] && (best < 0 || (int32_t)(M.due[i] - M.due[best]) < 0))
			best = i;
	if (best >= 0) {
		sim_probe(P_WAKE_TIMER);
		return M.due[best];
	}
	sim_probe(P_WAKE_UNBOUNDED);
	return M.now + FIBRE_UNBOUNDED_SLEEP;
}

/* ---- applying one operation to every surviving model ------------------------ */

enum { OP_RUN, OP_KILL, OP_ATOMIC, OP_TIMEOUT, OP_PASS, OP_WAKE, OP_DISPATCHED };

static int64_t model_op(int op, int a, uint32_t b)
{
	switch (op) {
	case OP_RUN: m_run(a); return 0;
	case OP_KILL: return m_kill(a);
	case OP_ATOMIC: return m_run_atomic(a);
	case OP_TIMEOUT: return m_timeout(b);
	case OP_PASS: return m_pass_begin(b);
	case OP_WAKE: return m_wakeup();
	case OP_DISPATCHED:	/* fibre a was dispatched and will return state b */
		M.fresh[a] = false;
		M.dispatches[a]++;
		M.cancelled[a] = false;
		M.cur_state = b;
		return 0;
	}
	return 0;
}

/* Apply op to all surviving models.  With compare set, models whose result differs from
 * `real` are dropped; if that would drop every model the primary's result is returned (the
 * caller reports the mismatch) and nothing is dropped.  Otherwise `real` is returned. */
static int64_t apply_op(int op, int a, uint32_t b, bool compare, int64_t real)
{
	int64_t res[2] = { 0, 0 };
	bool ok[2] = { false, false }, any = false;
	for (int k = 0; k < 2; k++)
		if (alive[k]) {
			M = MS[k];
			variant_b = k == 1;
			res[k] = model_op(op, a, b);
			MS[k] = M;
			ok[k] = !compare || res[k] == real;
			any |= ok[k];
		}
	variant_b = false;
	if (!any) {
		M = MS[primary()];
		return res[primary()];
	}
	for (int k = 0; k < 2; k++)
		alive[k] = alive[k] && ok[k];
	M = MS[primary()];
	return compare ? real : res[primary()];
}

/* ---- choices that can be replayed for the shifted second execution ------- */

static uint32_t *sub_tape;
static uint32_t sub_n, sub_pos, sub_cap;
static bool sub_replay;

static uint32_t ch(uint32_t n)
{
	if (sub_replay) {
		uint32_t v = sub_pos < sub_n ? sub_tape[sub_pos] : 0;
		sub_pos++;
		return n ? v % n : 0;
	}
	uint32_t v = sim_choose(n);
	if (sub_n == sub_cap) {
		sub_cap = sub_cap ? sub_cap * 2 : 1024;
		sub_tape = realloc(sub_tape, sub_cap * sizeof(uint32_t));
	}
	sub_tape[sub_n++] = v;
	return v;
}

static bool chance(uint32_t num, uint32_t den)
{
	uint32_t v = ch(den);
	return v != 0 && v <= num;
}

/* ---- execution log compared between the base and the shifted execution ---- */

#define XLOG_MAX 4096
static int32_t xlog[2][XLOG_MAX];
static uint32_t xlen[2];
static int exec_no;

static void xl(int32_t v)
{
	if (xlen[exec_no] < XLOG_MAX)
		xlog[exec_no][xlen[exec_no]++] = v;
}

/* ---- scenario state -------------------------------------------------------- */

static struct {
	bool c02;			/* timer-heavy swarm            */
	bool queue_full_enabled;
	uint32_t w_timeout, w_atomic, w_kill, w_run;	/* action weights inside fibres */
	uint32_t w_yield, w_wait, w_exit, w_fail;
	int in_pass;			/* 1 while fibre_scheduler_next runs    */
	int expected[2];		/* fibre each model says is dispatched  */
	int dispatched;			/* fibre the library dispatched (-1)    */
	int body_calls;
	bool started;			/* body entered at its first statement  */
	uint32_t base;
	bool flushing;
	bool solo;			/* a lone spinner: mostly yields, the clock leaps while nothing is pending */
	bool quiet;			/* inside a marathon: bodies just wait, no per-call events */
	uint32_t marathon_at;		/* step at which a marathon is inserted (UINT32_MAX: none) */
	uint32_t steps_done;
} S;

/* C01's statement covers the whole dispatch behaviour, timers included, so under the C01
 * check every dispatch mismatch is C01's; under C02/C03 the classes keep their owners */
static const char *own(const char *c02_or_c01)
{
	return sim_prop_is("C01") ? "C01" : c02_or_c01;
}

static void classify_dispatch(int real, int model) __attribute__((noreturn));
static void classify_dispatch(int real, int model)
{
	char why[200];
	snprintf(why, sizeof(why), "pass at t=0x%08x dispatched %s%d, reference scheduler says %s%d",
		 M.now, real < 0 ? "nothing " : "fibre ", real, model < 0 ? "nothing " : "fibre ", model);
	if (model < 0 && real >= 0) {
		if (M.has_timer[real] && (int32_t)(M.due[real] - M.now) > 0)
			sim_fail(own("C02"), "EARLY_FIRE", "%s; its timeout 0x%08x is still in the future", why, M.due[real]);
		if (M.cancelled[real])
			sim_fail(own("C02"), "SPURIOUS_AFTER_CANCEL", "%s; its timeout had been cancelled by a run/kill", why);
		sim_fail(own("C01"), "COALESCE", "%s (no reason outstanding for it)", why);
	}
	if (model >= 0 && M.expired_now[model]) {
		if (real >= 0 && M.expired_now[real])
			sim_fail(own("C02"), "EXPIRY_ORDER", "%s; both timeouts expired in this pass (due 0x%08x vs 0x%08x)",
				 why, M.due[real], M.due[model]);
		sim_fail(own("C02"), "LATE_FIRE", "%s; its timeout 0x%08x has expired", why, M.due[model]);
	}
	if (real >= 0 && M.has_timer[real] && (int32_t)(M.due[real] - M.now) > 0)
		sim_fail(own("C02"), "EARLY_FIRE", "%s; the timeout 0x%08x of fibre %d is still in the future", why, M.due[real], real);
	if (real >= 0 && M.cancelled[real] && !M.queued[real])
		sim_fail(own("C02"), "SPURIOUS_AFTER_CANCEL", "%s; its timeout had been cancelled", why);
	if (real >= 0 && model >= 0 && M.drained_multi[real] && M.drained_multi[model])
		sim_fail(own("C01"), "ATOMIC_ORDER", "%s; both were made runnable by fibre_run_atomic requests that were pending together", why);
	if (real >= 0 && model >= 0 && M.expired_now[real])
		sim_fail(own("C02"), "EXPIRY_ORDER", "%s; fibre %d's timeout expired in this pass and must queue behind", why, real);
	sim_fail(own("C01"), "DISPATCH", "%s", why);
}

/* one dispatch of fibre x: actions then the way it returns; real and model in lock step */
static int body_actions(int x)
{
	if (S.quiet)
		return FIBRE_STATE_WAITING;
	bool unsatisfied = false;
	uint32_t nact = S.flushing ? 0 : ch(4);
	for (uint32_t a = 0; a < nact; a++) {
		uint32_t tot = S.w_run + S.w_atomic + S.w_kill + S.w_timeout;
		uint32_t v = ch(tot);
		int y = ch(nf);
		if (v < S.w_run) {
			if (y == x)
				sim_probe(P_SELF_RUN);
			if (M.queued[y] || M.has_timer[y])
				sim_fault(F_SPURIOUS_RUN);
			fibre_run(&tf[y]->fibre);
			apply_op(OP_RUN, y, 0, false, 0);
			sim_ev("f.run", x, y, 0);
		} else if (v < S.w_run + S.w_atomic) {
			if (M.natomic >= AQ_DEPTH && !S.queue_full_enabled)
				continue;
			bool r = fibre_run_atomic(&tf[y]->fibre);
			real_accepted_overflow = r;
			bool m = apply_op(OP_ATOMIC, y, 0, true, r);
			sim_probe(P_ATOMIC_FROM_FIBRE);
			if (!m)
				sim_fault(F_QUEUE_FULL);
			sim_ev("f.atomic", x, y, r);
			xl(100 + r);
			if (r != m)
				sim_fail("C01", "ATOMIC_RET", "fibre_run_atomic returned %d inside fibre %d with %d request(s) undrained", r, x, M.natomic - (m ? 1 : 0));
		} else if (v < S.w_run + S.w_atomic + S.w_kill) {
			if (y == x)
				sim_probe(P_KILL_CURRENT);
			bool r = fibre_kill(&tf[y]->fibre);
			bool m = apply_op(OP_KILL, y, 0, true, r);
			sim_fault(F_KILL);
			if (m)
				sim_probe(P_KILL_TRUE);
			sim_ev("f.kill", x, y, r);
			xl(200 + r);
			if (r != m)
				sim_fail("C01", "KILL_RET", "fibre_kill(%d) inside fibre %d returned %d, reference says %d", y, x, r, m);
		} else {
			/* scope: one unsatisfied timeout per dispatch.  A fibre that is already queued may
			 * call fibre_timeout too; whether that also arms a timer is left open by the
			 * statement, so the reference forks (once per run) and follows both readings */
			if (unsatisfied)
				continue;
			bool fork = M.queued[x];
			if (fork && (alive[0] && alive[1]))
				continue;
			int32_t delta;
			switch (ch(8)) {
			case 0: delta = 0; break;
			case 1: delta = -(int32_t)ch(5); break;
			case 2: delta = 1; break;
			case 3: delta = 1 + ch(8); break;
			case 4: {	/* equal to another sleeper's due time */
				int o = ch(nf);
				delta = M.has_timer[o] ? (int32_t)(M.due[o] - M.now) : 2;
				break;
			}
			case 5: delta = 1 + ch(1000); break;
			case 6: delta = -(int32_t)(1 + ch(S.c02 ? 0x40000000 : 100000)); break;
			default: delta = 1 + ch(S.c02 ? 0x40000000 : 100000); break;
			}
			uint32_t d = M.now + (uint32_t)delta;
			bool r = fibre_timeout(d);
			if (fork && delta > 0) {
				int p = primary();
				MS[1 - p] = MS[p];
				if (p == 1) {	/* keep "timer although queued" in slot 1 */
					MS[0] = MS[1];
					p = 0;
				}
				alive[0] = alive[1] = true;
				S.expected[0] = S.expected[1] = x;	/* both agree on the dispatch in progress */
				sim_probe(P_MODEL_FORKED);
			}
			bool m = apply_op(OP_TIMEOUT, 0, d, true, r);
			if (m)
				sim_probe(P_TIMEOUT_IMMEDIATE);
			else
				unsatisfied = true;
			sim_ev("f.timeout", x, delta, r);
			xl(300 + r);
			if (r != m)
				sim_fail("C02", "TIMEOUT_RET", "fibre_timeout(now%+d) returned %d at now=0x%08x", delta, r, M.now);
		}
		sim_ops(1);
	}
	/* how to return */
	uint32_t tot = S.w_yield + S.w_wait + S.w_exit + S.w_fail;
	uint32_t v = ch(tot);
	int ret;
	if (unsatisfied && ch(4))
		ret = FIBRE_STATE_WAITING;	/* the usual PT_WAIT_UNTIL(fibre_timeout()) shape */
	else if (v < S.w_yield)
		ret = FIBRE_STATE_YIELDED;
	else if (v < S.w_yield + S.w_wait)
		ret = FIBRE_STATE_WAITING;
	else if (v < S.w_yield + S.w_wait + S.w_exit)
		ret = FIBRE_STATE_EXITED;
	else
		ret = FIBRE_STATE_FAILED;
	if (M.has_timer[x] && ret >= FIBRE_STATE_EXITED)
		sim_probe(P_EXIT_WITH_TIMER);
	return ret;
}

static int want_ret[MAXF];

static int fibre_body(fibre_t *f)
{
	tf_t *t = containerof(f, tf_t, fibre);
	int x = t->id;

	PT_BEGIN_FIBRE(f);
	S.started = true;
	for (;;) {
		/* --- one dispatch --- */
		S.body_calls++;
		S.dispatched = x;
		if (!S.in_pass)
			sim_fail("C01", "DISPATCH:outside_pass", "fibre %d was invoked outside fibre_scheduler_next", x);
		if (S.body_calls > 1)
			sim_fail("C01", "DISPATCH:twice", "a second fibre (%d) was dispatched by one fibre_scheduler_next call", x);
		{
			bool any = false;
			for (int k = 0; k < 2; k++)
				any |= alive[k] && S.expected[k] == x;
			if (!any) {
				M = MS[primary()];
				classify_dispatch(x, S.expected[primary()]);
			}
			for (int k = 0; k < 2; k++)
				alive[k] = alive[k] && S.expected[k] == x;
			M = MS[primary()];
		}
		if (fibre_self() != f)
			sim_fail("C01", "SELF", "fibre_self() inside fibre %d does not name it", x);
		if (S.started != M.fresh[x])
			sim_fail("C01", "RESTART", "fibre %d %s but the reference says it must %s",
				 x, S.started ? "started from its beginning" : "resumed after its last blocking point",
				 M.fresh[x] ? "start from its beginning" : "resume");
		if (S.started && M.dispatches[x] > 0)
			sim_probe(P_RESTART);
		if (!S.quiet) {
			sim_ev("dispatch", x, S.started, 0);
			xl(1000 + x * 2 + S.started);
		}
		/* cur_state is only read at the next pass, so it can be recorded after the actions */
		want_ret[x] = body_actions(x);
		apply_op(OP_DISPATCHED, x, want_ret[x], false, 0);
		if (!S.quiet)
			sim_ev("return", x, want_ret[x], 0);
		S.started = false;
		if (want_ret[x] == FIBRE_STATE_YIELDED) {
			PT_YIELD();
		} else if (want_ret[x] == FIBRE_STATE_WAITING) {
			PT_WAIT();
		} else if (want_ret[x] == FIBRE_STATE_EXITED) {
			PT_EXIT();
		} else {
			PT_FAIL();
		}
	}
	PT_END();
}

static void do_pass(uint32_t t)
{
	for (int k = 0; k < 2; k++)
		if (alive[k]) {
			M = MS[k];
			S.expected[k] = m_pass_begin(t);
			MS[k] = M;
		}
	M = MS[primary()];
	S.dispatched = -1;
	S.body_calls = 0;
	S.started = false;
	S.in_pass = 1;
	sim_budget(2000000);
	uint32_t wake = fibre_scheduler_next(t);
	S.in_pass = 0;
	sim_check_sanitizer();
	if (S.dispatched < 0 && !S.quiet)
		sim_ev("idle", 0, 0, 0), xl(999);
	{
		bool any = false;
		for (int k = 0; k < 2; k++)
			any |= alive[k] && S.expected[k] == S.dispatched;
		if (!any) {
			M = MS[primary()];
			classify_dispatch(S.dispatched, S.expected[primary()]);
		}
		for (int k = 0; k < 2; k++)
			alive[k] = alive[k] && S.expected[k] == S.dispatched;
		M = MS[primary()];
	}
	int m = S.dispatched;
	fibre_t *self = fibre_self();
	if (self != (m >= 0 ? &tf[m]->fibre : NULL))
		sim_fail("C01", "SELF", "after the pass fibre_self() names %s, the pass dispatched %s%d",
			 self ? "a fibre" : "nothing", m < 0 ? "nothing " : "fibre ", m);
	uint32_t mw = (uint32_t)apply_op(OP_WAKE, 0, 0, true, wake);
	if (!S.quiet) {
		sim_ev("wake", (int32_t)(wake - t), 0, 0);
		xl((int32_t)(wake - t));
	}
	if (wake != mw)
		sim_fail("C03", "WAKEUP_VALUE",
			 "fibre_scheduler_next(0x%08x) returned 0x%08x (t%+d), expected 0x%08x (t%+d): run queue %d, undrained atomic %d, yielded %d",
			 t, wake, (int32_t)(wake - t), mw, (int32_t)(mw - t), M.nrun, M.natomic,
			 M.current >= 0 && M.cur_state == FIBRE_STATE_YIELDED);
	sim_ops(1);
}

static uint32_t pick_advance(void)
{
	/* earliest pending due time, if any */
	int best = -1;
	for (int i = 0; i < nf; i++)
		if (M.has_timer[i] && (best < 0 || (int32_t)(M.due[i] - M.due[best]) < 0))
			best = i;
	uint32_t to_due = best >= 0 ? M.due[best] - M.now : 0;
	uint32_t adv;
	if (S.solo && best < 0 && ch(2)) {
		/* nothing is pending, so any cyclically-forward time is in scope: leap most of 2^31 */
		sim_fault(F_CLOCK_JUMP);
		sim_probe(P_SOLO_LEAP);
		return 0x30000000u + ch(0x4fffffffu);
	}
	switch (ch(10)) {
	case 0: adv = 0; sim_fault(F_CLOCK_STALL); break;
	case 1: adv = 1; break;
	case 2: adv = 1 + ch(8); break;
	case 3: adv = best >= 0 ? to_due : 2; break;			/* exactly to the next due time */
	case 4: adv = best >= 0 && to_due > 0 ? to_due - 1 : 0; break;	/* one tick short */
	case 5: adv = best >= 0 ? to_due + 1 + ch(3) : 3; break;
	case 6: adv = ch(1000); break;
	case 7:
		if (!S.c02)
			adv = ch(100000);	/* C01 stays far from the wrap points */
		else
			adv = best >= 0 ? ch(0x40000000) : ch(0x7fffffff);
		sim_fault(F_CLOCK_JUMP);
		break;
	case 8: {	/* to the latest pending due time: several expire together */
		uint32_t far = 0;
		for (int i = 0; i < nf; i++)
			if (M.has_timer[i] && M.due[i] - M.now > far)
				far = M.due[i] - M.now;
		adv = far;
		break;
	}
	default: adv = ch(4); break;
	}
	if (best >= 0 && adv > 0x40000000)
		adv = 0x40000000;	/* scope: t within 2^31 of every pending due time */
	return adv;
}

static void execute(uint32_t base, uint32_t nsteps)
{
	memset(&M, 0, sizeof(M));
	M.current = -1;
	M.now = base;
	alive[0] = true;
	alive[1] = false;
	for (int i = 0; i < nf; i++) {
		tf[i] = sim_alloc(sizeof(tf_t));
		tf[i]->id = i;
		if (i & 1) {
			/* the static initialiser describes the same fibre as fibre_init() */
			fibre_t init = FIBRE_VAR_INIT(fibre_body);
			memset(&tf[i]->fibre, 0xa5, sizeof(fibre_t));
			tf[i]->fibre = init;
		} else {
			memset(&tf[i]->fibre, 0x5a, sizeof(fibre_t));	/* fibre_init must not depend on prior contents */
			fibre_init(&tf[i]->fibre, fibre_body);
		}
		M.fresh[i] = true;
	}
	MS[0] = M;
	S.in_pass = 0;
	uint32_t t = base;
	sim_clock = t;

	S.flushing = false;
	if (sub_replay)
		nsteps = S.steps_done;	/* exactly as many steps as the base execution */
	else
		S.steps_done = 0;
	for (uint32_t step = 0; step < nsteps && (sub_replay || !sim_tape_done()); step++) {
		if (!sub_replay) {
			sim_seg();
			S.steps_done++;
		}
		if (step == S.marathon_at) {
			/* a very long-lived scheduler: tens of thousands of interrupt-context requests and
			 * passes, every one in lock step with the reference, so that 16-bit counters,
			 * stamps, tickets and cursors anywhere under the scheduler wrap.  Bodies just wait.
			 * Fibres 0..rot-1 are woken in rotation; the others are "victims" woken rarely, at
			 * gaps of 65536/c + e iterations (and first after such a gap), which is where a
			 * wrapped stamp or epoch would alias. */
			static const uint32_t lens[] = { 300, 65530, 65560, 66000, 70000, 131200 };
			/* Half the marathons are perfectly regular (every iteration makes the same calls), so
			 * that whatever the library counts - drains, removals, requests, dispatches - advances
			 * by the same amount per iteration and a victim woken twice exactly 65536 iterations
			 * apart (a few either side for its own contribution) sees every 16-bit count alias. */
			bool regular = ch(2);
			uint32_t k = regular ? 65536 + 100 + ch(64) : lens[ch(6)] + ch(8);
			uint32_t passes = 1 + ch(3);
			bool holds = !regular && ch(2);
			int rot = nf > 1 ? 1 + (int)ch(nf - 1) : 1;
			uint32_t next_wake[MAXF], gap[MAXF];
			for (int v = rot; v < nf; v++) {
				if (regular) {
					gap[v] = 65536 + ch(9) - 6;
					next_wake[v] = ch(32);
				} else {
					uint32_t c = 1 + ch(6);
					gap[v] = 65536 / c + ch(25) - 12;
					next_wake[v] = ch(2) ? gap[v] : ch(64);
				}
			}
			sim_ev("marathon", k, passes * 2 + holds, rot);
			sim_probe(P_MARATHON);
			S.quiet = true;
			for (uint32_t i = 0; i < k; i++) {
				int y = i % rot;
				bool hold = holds && (i & 63) >= 56 && M.natomic < AQ_DEPTH - 2;	/* now and then let the queue fill */
				for (int v = rot - 1; v < nf; v++) {
					if (v >= rot && i != next_wake[v])
						continue;
					if (v >= rot) {
						next_wake[v] += gap[v];
						y = v;
						if (M.natomic >= AQ_DEPTH)
							continue;
					}
					sim_budget(2000000);
					bool r = fibre_run_atomic(&tf[y]->fibre);
					real_accepted_overflow = r;
					bool m = apply_op(OP_ATOMIC, y, 0, true, r);
					if (r != m)
						sim_fail("C01", "ATOMIC_RET", "fibre_run_atomic returned %d with %d request(s) undrained (request %u of a long run)", r, M.natomic - (m ? 1 : 0), i);
				}
				if (!hold) {
					t += i & 1;
					sim_clock = t;
					for (uint32_t q = 0; q < passes; q++)
						do_pass(t);
				}
			}
			S.quiet = false;
			sim_check_sanitizer();
			sim_ev("marathon_end", M.nrun, M.natomic, 0);
		}
		uint32_t op = ch(10);
		int x = ch(nf);
		if (op <= 5) {
			uint32_t adv = pick_advance();
			uint32_t nt = t + adv;
			if (nt < t && adv)
				sim_probe(P_WRAP_0), sim_fault(F_CLOCK_WRAP);
			if (t < 0x80000000u && nt >= 0x80000000u && adv)
				sim_probe(P_WRAP_80), sim_fault(F_CLOCK_WRAP);
			t = nt;
			sim_clock = t;
			sim_ticks(adv);
			sim_ev("pass", (int64_t)(t - base), 0, 0);
			do_pass(t);
		} else if (op <= 7) {
			if (M.queued[x] || M.has_timer[x] || x == M.current)
				sim_fault(F_SPURIOUS_RUN);
			sim_budget(2000000);
			fibre_run(&tf[x]->fibre);
			apply_op(OP_RUN, x, 0, false, 0);
			sim_ev("run", x, 0, 0);
			sim_ops(1);
		} else if (op == 8) {
			if (M.natomic >= AQ_DEPTH && !S.queue_full_enabled)
				continue;
			/* sometimes a burst, so that the 8-deep queue fills and overflows */
			uint32_t burst = ch(4) == 3 ? 2 + ch(9) : 1;
			bool distinct = burst > 1 && ch(2);	/* a burst from distinct sources: x, x+1, ... */
			for (uint32_t b = 0; b < burst; b++) {
				if (b)
					x = distinct ? (x + 1) % nf : (int)ch(nf);
				if (M.natomic >= AQ_DEPTH && !S.queue_full_enabled)
					break;
				sim_budget(2000000);
				bool r = fibre_run_atomic(&tf[x]->fibre);
				real_accepted_overflow = r;
				bool m = apply_op(OP_ATOMIC, x, 0, true, r);
				if (!m)
					sim_fault(F_QUEUE_FULL);
				sim_ev("atomic", x, r, 0);
				xl(100 + r);
				if (r != m)
					sim_fail("C01", "ATOMIC_RET", "fibre_run_atomic returned %d with %d request(s) undrained", r, M.natomic - (m ? 1 : 0));
				sim_ops(1);
			}
		} else {
			sim_budget(2000000);
			bool r = fibre_kill(&tf[x]->fibre);
			bool m = apply_op(OP_KILL, x, 0, true, r);
			sim_fault(F_KILL);
			if (m)
				sim_probe(P_KILL_TRUE);
			if (x == M.current)
				sim_probe(P_KILL_CURRENT);
			sim_ev("kill", x, r, 0);
			xl(200 + r);
			if (r != m)
				sim_fail("C01", "KILL_RET", "fibre_kill(%d) returned %d, reference says %d (queued %d, timer %d)",
					 x, r, m, M.queued[x], M.has_timer[x]);
			sim_ops(1);
		}
		sim_check_sanitizer();
	}

	/* flush: faults stop; sleep exactly as the returned wake-up time says until idle.
	 * Everything the model still owes must be dispatched (bounded liveness). */
	uint32_t saved_yield = S.w_yield;
	S.w_yield = 0;	/* fibres stop yielding and acting so the system can come to rest */
	S.flushing = true;
	for (int k = 0; k < 64; k++) {
		uint32_t mw = m_wakeup();	/* primary model (M) */
		bool idle = M.nrun == 0 && M.natomic == 0 &&
			    !(M.current >= 0 && M.cur_state == FIBRE_STATE_YIELDED);
		bool timers = false;
		for (int i = 0; i < nf; i++)
			timers |= M.has_timer[i];
		if (idle && !timers)
			break;
		uint32_t adv = idle ? mw - t : 0;
		t += adv;
		sim_clock = t;
		sim_ticks(adv);
		sim_ev("flush", (int64_t)(t - base), 0, 0);
		do_pass(t);
	}
	S.w_yield = saved_yield;
	S.flushing = false;
}

/* ---- a crowd: tens of thousands of fibres asleep at once -------------------------------
 * "Any number of fibres": set up and torn down in O(n) library work (each fibre is started and
 * dispatched alone, due times decrease with the registration order so every sorted insert is
 * at the head, and exactly one timeout falls due per pass). */
typedef struct {
	fibre_t fibre;
	uint32_t id, due;
	bool dead;
} cf_t;
static cf_t *crowd_f;
static uint32_t crowd_last, crowd_calls;
static bool crowd_timeout_ret, crowd_spurious;

static int crowd_body(fibre_t *f)
{
	cf_t *c = containerof(f, cf_t, fibre);
	PT_BEGIN_FIBRE(f);
	crowd_last = c->id;
	crowd_calls++;
	crowd_timeout_ret = fibre_timeout(c->due);
	PT_WAIT();
	crowd_last = c->id;	/* woken by the expiry of its timeout */
	crowd_calls++;
	PT_WAIT();
	crowd_last = c->id;	/* there is no reason for a third dispatch */
	crowd_calls++;
	crowd_spurious = true;
	PT_END();
}

/* ---- a crowd on the run queue: hundreds of runnable fibres behind a yielding one ---------- */
static uint32_t yl_left;
static int rq_body(fibre_t *f)
{
	cf_t *c = containerof(f, cf_t, fibre);
	PT_BEGIN_FIBRE(f);
	for (;;) {
		crowd_last = c->id;
		crowd_calls++;
		if (c->id == 0 && yl_left > 0) {
			yl_left--;
			PT_YIELD();
		} else {
			PT_WAIT();
		}
	}
	PT_END();
}

static void runq_crowd(void)
{
	/* fibre 0 yields; fibres 1..n are made runnable while it does; FIFO order says they all run
	 * before it gets its next turn, whatever n is */
	static const uint32_t sizes[] = { 3, 255, 256, 257, 511, 512, 513, 700 };
	uint32_t n = sizes[ch(8)];
	uint32_t T = 5000 + ch(1000);
	free(crowd_f);
	crowd_f = calloc(n + 1, sizeof(cf_t));
	if (!crowd_f)
		sim_discard("no memory for a crowd");
	crowd_calls = 0;
	yl_left = 3 + ch(3);
	sim_ev("runq_crowd", n, T, yl_left);
	sim_probe(P_RUNQ_CROWD);
	sim_clock = T;
	for (uint32_t i = 0; i <= n; i++) {
		crowd_f[i].id = i;
		fibre_init(&crowd_f[i].fibre, rq_body);
	}
	sim_budget(400000000);
	fibre_run(&crowd_f[0].fibre);
	uint32_t wake = fibre_scheduler_next(T);
	if (crowd_calls != 1 || crowd_last != 0 || (wake != T && sim_prop_is("C03")))
		sim_fail(NULL, "DISPATCH:crowd", "a lone runnable fibre was not dispatched by the next pass (or the pass did not return t although it yielded)");
	/* a second turn alone: the single-yielder fast path */
	(void)fibre_scheduler_next(T);
	uint32_t rounds = 1 + ch(2);
	for (uint32_t round = 0; round < rounds; round++) {
		uint32_t order0 = ch(2);	/* made runnable in ascending or descending order */
		for (uint32_t i = 1; i <= n; i++)
			fibre_run(&crowd_f[order0 ? n + 1 - i : i].fibre);
		for (uint32_t i = 1; i <= n + 1; i++) {
			uint32_t want = i <= n ? (order0 ? n + 1 - i : i) : 0;
			uint32_t before = crowd_calls;
			wake = fibre_scheduler_next(T + (i & 1));
			if (crowd_calls != before + 1 || crowd_last != want)
				sim_fail(NULL, "DISPATCH:crowd",
					 "%u fibres were made runnable behind a yielding fibre; pass %u of that round dispatched fibre %u, FIFO order says fibre %u",
					 n, i, crowd_calls == before ? UINT32_MAX : crowd_last, want);
			bool more = i <= n || yl_left > 0 || (i == n + 1 && crowd_last == 0 && yl_left + 1 > 0);
			(void)more;
			if (i <= n && wake != T + (i & 1) && sim_prop_is("C03"))
				sim_fail(NULL, "WAKEUP_VALUE", "fibre_scheduler_next returned t%+d with %u fibres still runnable",
					 (int32_t)(wake - T - (i & 1)), n + 1 - i);
		}
		if (yl_left == 0)
			break;
	}
	sim_ops(n);
	sim_check_sanitizer();
	free(crowd_f);
	crowd_f = NULL;
}

static uint32_t crowd_T;
static int crowd_cmp(const void *pa, const void *pb)
{
	const cf_t *x = *(cf_t *const *)pa, *y = *(cf_t *const *)pb;
	uint32_t dx = x->due - crowd_T, dy = y->due - crowd_T;
	if (dx != dy)
		return dx < dy ? -1 : 1;
	return x->id < y->id ? -1 : 1;	/* equal due times: registration order (ids are given in that order) */
}

static void crowd_start(cf_t *c, uint32_t i, uint32_t T, uint32_t asleep, uint32_t earliest)
{
	c->id = i;
	fibre_init(&c->fibre, crowd_body);
	sim_budget(40000000);
	fibre_run(&c->fibre);
	uint32_t before = crowd_calls;
	uint32_t wake = fibre_scheduler_next(T);
	if (crowd_calls != before + 1 || crowd_last != i)
		sim_fail(NULL, "DISPATCH:crowd", "fibre %u of a crowd was made runnable but the next pass dispatched %s (fibre %u)",
			 i, crowd_calls == before ? "nothing" : "something else", crowd_last);
	if (crowd_timeout_ret)
		sim_fail(NULL, "TIMEOUT_RET", "fibre_timeout(now+%u) returned true (fibre %u of a crowd)", c->due - T, i);
	if (wake != earliest && sim_prop_is("C03"))
		sim_fail(NULL, "WAKEUP_VALUE", "with %u fibres asleep fibre_scheduler_next returned t%+d, the earliest pending due time is t+%u",
			 asleep, (int32_t)(wake - T), earliest - T);
}

static void crowd(void)
{
	/* starting a fibre costs the library a search of the timer queue, so a crowd of n costs n^2/2
	 * steps: the 16-bit boundary sizes (a minute each) run in the thorough tier only, one per
	 * worker (run indices 0-15); everywhere else crowds stay below 3000 */
	static const uint32_t big[] = { 65536, 65537, 65535, 65538 };
	static const uint32_t bases[] = { 1000, 0xffff0000u, 0x7fff0000u, 0xfffffff0u };
	bool huge = sim_thorough() && sim_run_index() < 16;
	if (!huge && ch(2)) {
		runq_crowd();
		return;
	}
	uint32_t n = huge ? big[sim_run_index() % 4] : 2 + ch(sim_choose(2) ? 300 : 3000);
	uint32_t T = bases[ch(4)];
	uint32_t stride = 2 * (1 + ch(2));
	uint32_t nkill = ch(2) ? ch(3) : ch(9);
	uint32_t nlate = ch(7);
	bool middles = !huge && ch(2);		/* some due times fall in the middle of those already pending */
	free(crowd_f);
	crowd_f = calloc(n + nlate, sizeof(cf_t));
	if (!crowd_f)
		sim_discard("no memory for a crowd");
	crowd_calls = 0;
	crowd_spurious = false;
	crowd_T = T;
	sim_ev("crowd", n, T, stride * 4 + nkill);
	sim_probe(P_CROWD);
	sim_clock = T;
	uint32_t earliest = 0;
	for (uint32_t i = 0; i < n; i++) {
		cf_t *c = &crowd_f[i];
		/* due times decrease with the registration order (every sorted insert is at the head)... */
		c->due = T + 10 + (n - 1 - i) * stride;
		if (middles && i > 12 && ch(20) == 0) {
			/* ...except for these, which land 1..40 places into the queue, some on an equal due time */
			c->due += stride * (1 + ch(i < 40 ? i - 1 : 40)) + ch(2);
			sim_probe(P_CROWD_MIDDLE);
		}
		if (i == 0 || (int32_t)(c->due - earliest) < 0)
			earliest = c->due;
		crowd_start(c, i, T, i + 1, earliest);
	}
	sim_ops(n);
	sim_check_sanitizer();
	/* some are killed: the number of pending timeouts moves, remembered positions go stale */
	for (uint32_t k = 0; k < nkill; k++) {
		uint32_t v = ch(4) ? n - 1 - ch(n < 64 ? n : 64) : ch(n);	/* mostly among the most recent */
		sim_budget(40000000);
		bool r = fibre_kill(&crowd_f[v].fibre);
		if (r != !crowd_f[v].dead)
			sim_fail(NULL, "KILL_RET", "fibre_kill of sleeper %u in a crowd of %u returned %d", v, n, r);
		crowd_f[v].dead = true;
		sim_fault(F_KILL);
	}
	/* late joiners: due somewhere among the sleepers */
	for (uint32_t k = 0; k < nlate; k++) {
		cf_t *c = &crowd_f[n + k];
		uint32_t near = ch(4) ? n - 1 - ch(n < 64 ? n : 64) : ch(n);
		c->due = crowd_f[near].due + ch(3);
		earliest = 0;
		bool any = false;
		for (uint32_t i = 0; i < n + k; i++)
			if (!crowd_f[i].dead && (!any || (int32_t)(crowd_f[i].due - earliest) < 0)) {
				earliest = crowd_f[i].due;
				any = true;
			}
		if (!any || (int32_t)(c->due - earliest) < 0)
			earliest = c->due;
		crowd_start(c, n + k, T, n + k + 1, earliest);
	}
	/* the timeouts fall due one pass at a time, in due order (registration order for equal due times) */
	uint32_t total = n + nlate, nlive = 0;
	cf_t **live = malloc(sizeof(cf_t *) * total);
	if (!live)
		sim_discard("no memory for a crowd");
	for (uint32_t i = 0; i < total; i++)
		if (!crowd_f[i].dead)
			live[nlive++] = &crowd_f[i];
	qsort(live, nlive, sizeof(live[0]), crowd_cmp);
	uint32_t t = T;
	for (uint32_t j = 0; j < nlive; j++) {
		cf_t *c = live[j];
		if ((int32_t)(c->due - t) > 0)
			t = c->due;
		sim_clock = t;
		sim_budget(40000000);
		uint32_t before = crowd_calls;
		uint32_t wake = fibre_scheduler_next(t);
		if (crowd_calls == before) {
			free(live);
			sim_fail(NULL, "LATE_FIRE:crowd", "with %u fibres asleep the pass at the due time of fibre %u dispatched nothing",
				 nlive - j, c->id);
		}
		if (crowd_calls != before + 1 || crowd_last != c->id || crowd_spurious) {
			uint32_t id = c->id;
			free(live);
			sim_fail(NULL, "EXPIRY_ORDER:crowd", "the pass at the due time of fibre %u dispatched fibre %u%s", id, crowd_last,
				 crowd_spurious ? " for a third time" : "");
		}
		uint32_t want = j + 1 < nlive ? ((int32_t)(live[j + 1]->due - t) <= 0 ? t : live[j + 1]->due)
					      : t + FIBRE_UNBOUNDED_SLEEP;
		if (wake != want && sim_prop_is("C03")) {
			free(live);
			sim_fail(NULL, "WAKEUP_VALUE", "with %u fibres still asleep fibre_scheduler_next returned t%+d, expected t%+d",
				 nlive - j - 1, (int32_t)(wake - t), (int32_t)(want - t));
		}
	}
	free(live);
	sim_ticks(t - T);
	sim_budget(2000000);
	uint32_t before = crowd_calls;
	uint32_t wake = fibre_scheduler_next(t + 1000);
	if (crowd_calls != before || (wake != t + 1000 + FIBRE_UNBOUNDED_SLEEP && sim_prop_is("C03")))
		sim_fail(NULL, "EXTRA_DISPATCH:crowd", "after every fibre of the crowd had been woken once a further pass dispatched fibre %u or returned t%+d",
			 crowd_last, (int32_t)(wake - t - 1000));
	sim_check_sanitizer();
	sim_ev("crowd_end", crowd_calls, 0, 0);
	free(crowd_f);
	crowd_f = NULL;
}

static void run(void)
{
	static const uint32_t bases[] = { 0, 0x7fffffffu, 0x80000000u, 0xffffffffu, 0xfffffff0u,
					  0x7ffffff0u, 0xffffff00u, 0x7fffff00u };
	sub_n = 0;
	sub_pos = 0;
	sub_replay = false;
	exec_no = 0;
	xlen[0] = xlen[1] = 0;

	S.c02 = !sim_prop_is("C01");	/* C02 and C03 use the timer-heavy, wrap-placed swarm */
	if (sim_prop_is("C03"))
		S.c02 = sim_choose(2);
	if ((sim_thorough() && sim_run_index() < 16) || sim_chance(1, 3000)) {
		crowd();
		return;
	}
	nf = sim_choose(4) ? 1 + sim_choose(6) : 1 + sim_choose(MAXF);
	uint32_t nsteps = 5 + sim_choose(56);
	if (sim_chance(1, 16))
		nsteps = 150 + sim_choose(250);	/* long-lived schedulers: counters and queue cursors wrap */
	S.marathon_at = sim_chance(1, 4000) ? sim_choose(nsteps) : UINT32_MAX;
	S.quiet = false;
	S.queue_full_enabled = sim_chance(1, 4);
	if (S.queue_full_enabled && sim_choose(2))
		nf = 9 + sim_choose(MAXF - 8);	/* enough fibres for 8 distinct undrained requests and a ninth */
	if (S.c02) {
		uint32_t b = sim_choose(12);
		S.base = b < 8 ? bases[b] - sim_choose(b ? 4 : 1) : sim_bits32();
		S.w_timeout = 6 + sim_choose(10);
		S.w_run = 1 + sim_choose(3);
		S.w_atomic = sim_choose(3);
		S.w_kill = sim_choose(3);
		S.w_yield = sim_choose(3);
		S.w_wait = 6;
		S.w_exit = sim_choose(2);
		S.w_fail = sim_choose(2);
	} else {
		S.base = sim_choose(1000);
		if (sim_chance(1, 4)) {
			/* C01 quantifies over every time base too: a quarter of its histories sit
			 * next to the wrap points (time steps stay small) */
			S.base = bases[1 + sim_choose(7)] - sim_choose(300);
			sim_probe(P_WRAP_BASE_IN_C01);
		}
		S.w_timeout = sim_choose(3);
		S.w_run = 2 + sim_choose(4);
		S.w_atomic = 1 + sim_choose(6);
		S.w_kill = sim_choose(4);
		S.w_yield = 1 + sim_choose(4);
		S.w_wait = 1 + sim_choose(4);
		S.w_exit = sim_choose(3);
		S.w_fail = sim_choose(2);
	}
	S.solo = S.c02 && sim_chance(1, 25);
	if (S.solo) {
		/* one or two fibres that mostly yield (the scheduler's single-yielder fast path), a clock
		 * that leaps while no timeout is pending, and now and then a timeout */
		nf = 1 + sim_choose(2);
		S.w_yield = 8;
		S.w_wait = 1;
		S.w_timeout = 1 + sim_choose(2);
		S.w_exit = S.w_fail = 0;
		S.w_kill = 0;
		if (nsteps < 30)
			nsteps = 30 + sim_choose(30);
	}
	uint32_t shift = 0;
	bool do_shift = sim_prop_is("C02") && sim_choose(3) == 0;
	if (do_shift) {
		uint32_t k = sim_choose(6);
		shift = k == 0 ? 0x80000000u : k == 1 ? 0xffffffffu - S.base : k == 2 ? 0x7fffffffu - S.base
			: sim_bits32();
	}
	sim_ev("hdr", nf, S.base, S.c02);

	execute(S.base, nsteps);

	if (do_shift && shift) {
		/* same scenario, same choices, time base translated: behaviour must be identical */
		sim_lib_restart();
		sub_replay = true;
		sub_pos = 0;
		exec_no = 1;
		sim_ev("shifted", shift, 0, 0);
		execute(S.base + shift, nsteps);
		sim_probe(P_SHIFT_CHECKED);
		if (xlen[0] != xlen[1] || memcmp(xlog[0], xlog[1], xlen[0] * sizeof(int32_t))) {
			uint32_t i = 0;
			while (i < xlen[0] && i < xlen[1] && xlog[0][i] == xlog[1][i])
				i++;
			sim_fail("C02", "SHIFT_INVARIANCE",
				 "the same history behaves differently with the time base moved from 0x%08x to 0x%08x (first difference at log entry %u: %d vs %d)",
				 S.base, S.base + shift, i, i < xlen[0] ? xlog[0][i] : -1, i < xlen[1] ? xlog[1][i] : -1);
		}
	}
}

const sim_harness_t sim_harness = {
	.name = "h_fibre",
	.flavour = "asan",
	.run = run,
	.fault_names = fault_names,
	.probe_names = probe_names,
	.min_ops = 5,
	.rule = "one case = one generated history of fibre_run / fibre_run_atomic / fibre_kill / "
		"fibre_scheduler_next(t) issued from outside and from inside 1-6 real protothread fibres "
		"(each dispatch interprets a tape-chosen script and returns yielded/waiting/exited/failed), "
		"followed by a fault-free flush to quiescence; every dispatch, fibre_self, return value and "
		"wake-up time is compared with a reference scheduler; C02/C03 runs place the time base next "
		"to the 32-bit wrap points and C02 re-runs one history in three with the base translated; "
		"non-trivial = at least 5 operations and at least one fault or probe; distinct = distinct "
		"hash of the complete event sequence",
	.real = "librfn/fibre.c, list.c, messageq.c, util.c (cyclecmp32), protothreads.h macros in the fibre bodies",
	.stub = "main loop and clock (the harness passes the simulated time to fibre_scheduler_next); fibre bodies are harness scripts",
};

int main(int argc, char **argv)
{
	return sim_main(argc, argv);
}
