/*
 * h_mq - C04 (and the message-queue part of C07): many concurrent senders and
 * one receiver on the lock-free message queue.
 *
 * Flavour: sim.  Scheduling points: every atomic operation in messageq.c, every
 * plain access to the descriptor and to message storage (the harness's own
 * payload accesses go through the instrumented shim), and explicit points
 * between claim / write / send and between receive / check / release.
 *
 * Modes: thr (1-4 sender contexts + 1 receiver context, four strategies) and
 * irq (the receiver is the main context; senders are interrupt handlers that
 * nest inside the receiver and, to depth 2, inside each other).
 */
#include "sim.h"
#include "simrt.h"

#include <string.h>
#include <librfn/messageq.h>

enum { F_PREEMPT, F_IRQ, F_IRQ_NESTED, F_QUEUE_FULL, F_STALL };
static const char *const fault_names[] = { "thread_preempt", "irq_inject", "irq_nested",
					   "claim_refused_full", "stall", NULL };
enum { P_FULL_WITH_CLAIMS_IN_FLIGHT, P_TWO_CLAIMS_OVERLAP, P_SEND_OUT_OF_CLAIM_ORDER, P_HELD_SEVERAL,
       P_WRAPPED, P_DEPTH1, P_DEPTH32, P_RECEIVE_BLOCKED, P_STALLED_BETWEEN_CLAIM_AND_SEND,
       P_MODE_THR, P_MODE_IRQ, P_REFUSED_WHILE_OTHER_FAILING, P_CONSERVATION_CHECKED, P_LONG_LIVED,
       P_OVER_256_CLAIMS, P_BIG_MESSAGES };
static const char *const probe_names[] = {
	"claim_refused_while_other_claims_in_flight", "two_claims_overlapped",
	"sends_out_of_claim_order", "receiver_held_several", "slot_index_wrapped", "depth_1",
	"depth_32", "receive_found_oldest_unsent", "sender_preempted_between_claim_and_send",
	"mode_threads", "mode_irq", "claim_refused_while_another_refusal_in_flight",
	"conservation_checked_at_quiescence", "long_lived_queue", "more_than_256_claims",
	"message_size_255_to_8191", NULL };

#define MAXDEPTH 32
#define MAXSENDERS 4
#define MAXCLAIMS 1024

static messageq_t *mq;
static uint8_t *store;
static uint32_t depth, msg_len;
static uint32_t pay_len;	/* bytes of each message the senders write and the receiver checks (at most 24) */

enum { S_FREE, S_CLAIMED, S_SENT, S_RECEIVED };
static struct {
	uint8_t state;
	uint32_t rounds;	/* how many times this slot was handed out */
} slot[MAXDEPTH];

static struct {
	uint8_t sender;
	uint16_t seq;
	bool sent, received;
	uint64_t ret_ev;
} claim[MAXCLAIMS];
static uint32_t n_claims;		/* successful claims so far                     */
static int64_t max_g_returned;		/* largest claim number among returned claims   */
static uint32_t n_received, n_released;
static uint32_t U;			/* claims invoked and not refused - releases returned */

/* claims in progress (for the interval oracle) */
static struct {
	bool active;
	uint32_t max_ub_others;
	int64_t max_g_at_invoke;
	bool overlapped_refusal;
} inprog[SIMRT_MAXCTX + 4];
static int n_inprog_active;
static int n_refusing;			/* heuristics for probes only */

static uint64_t evno;

/* per-sender program */
static struct {
	uint32_t rounds;
	uint8_t retry;		/* retries after a refused claim */
	uint16_t seq;
	bool done;
} snd[MAXSENDERS];
static uint32_t nsenders, senders_done;
static uint32_t hold_max;
static uint32_t recv_attempts;
static int mode;
static int last_sent_g;

static void payload_fill(uint8_t *buf, uint8_t sender, uint16_t seq)
{
	for (uint32_t i = 0; i < pay_len; i++)
		buf[i] = (uint8_t)(0x11 * (sender + 1) + 7 * seq + 31 * i + (i == 0 ? sender : 0));
}

static int inprog_begin(void)
{
	int me = -1;
	for (int i = 0; i < (int)(sizeof(inprog) / sizeof(inprog[0])); i++)
		if (!inprog[i].active) {
			me = i;
			break;
		}
	if (me < 0)
		sim_fail(NULL, "HARNESS", "too many claims in progress");
	U++;
	if (n_inprog_active > 0)
		sim_probe(P_TWO_CLAIMS_OVERLAP);
	/* a new claim in progress raises the in-use upper bound seen by every other one */
	for (int i = 0; i < (int)(sizeof(inprog) / sizeof(inprog[0])); i++)
		if (inprog[i].active && U - 1 > inprog[i].max_ub_others)
			inprog[i].max_ub_others = U - 1;
	inprog[me].active = true;
	inprog[me].max_ub_others = U - 1;
	inprog[me].max_g_at_invoke = max_g_returned;
	inprog[me].overlapped_refusal = false;
	n_inprog_active++;
	return me;
}

/* one claim with all its bookkeeping; returns the claim number or -1 */
static int do_claim(uint8_t sender, void **out)
{
	int me = inprog_begin();
	bool others = n_inprog_active > 1;
	sim_ev("claim.inv", sender, 0, 0);
	evno++;
	uint8_t *p = messageq_claim(mq);
	evno++;
	inprog[me].active = false;
	n_inprog_active--;
	sim_ops(1);
	if (!p) {
		sim_fault(F_QUEUE_FULL);
		if (others || n_inprog_active > 0)
			sim_probe(P_FULL_WITH_CLAIMS_IN_FLIGHT);
		uint32_t ub = inprog[me].max_ub_others;
		U--;
		if (inprog[me].overlapped_refusal)
			sim_probe(P_REFUSED_WHILE_OTHER_FAILING);
		for (int i = 0; i < (int)(sizeof(inprog) / sizeof(inprog[0])); i++)
			if (inprog[i].active)
				inprog[i].overlapped_refusal = true;
		sim_ev("claim.ret", sender, -1, ub);
		if (ub < depth)
			sim_fail(NULL, "SPURIOUS_FULL",
				 "claim by sender %u refused although at every instant of the call at most %u of %u buffers were claimed-and-unreleased or being claimed by others",
				 sender, ub, depth);
		*out = NULL;
		return -1;
	}
	ptrdiff_t off = p - store;
	if (off < 0 || off % msg_len || off / msg_len >= depth)
		sim_fail(NULL, "BAD_POINTER", "claim returned offset %td (message size %u, depth %u)", off, msg_len, depth);
	uint32_t s = off / msg_len;
	if (slot[s].state != S_FREE)
		sim_fail(NULL, "DOUBLE_CLAIM",
			 "claim by sender %u was handed buffer %u which is still %s (claim number %u of that buffer; %u claimed-and-unreleased of %u)",
			 sender, s, slot[s].state == S_CLAIMED ? "owned by its claimer" :
			 slot[s].state == S_SENT ? "sent and not yet received" : "held by the receiver",
			 slot[s].rounds, U - 1, depth);
	int g = slot[s].rounds * depth + s;
	if (g >= MAXCLAIMS)
		sim_discard("claim table full");
	if (slot[s].rounds > 0)
		sim_probe(P_WRAPPED);
	slot[s].rounds++;
	slot[s].state = S_CLAIMED;
	if (g <= inprog[me].max_g_at_invoke)
		sim_fail(NULL, "CLAIM_ORDER",
			 "claim number %d was handed out although claim number %lld had already returned before this call began",
			 g, (long long)inprog[me].max_g_at_invoke);
	if (g > max_g_returned)
		max_g_returned = g;
	claim[g].sender = sender;
	claim[g].seq = snd[sender].seq;
	claim[g].sent = claim[g].received = false;
	n_claims++;
	if (n_claims == 257)
		sim_probe(P_OVER_256_CLAIMS);
	sim_ev("claim.ret", sender, g, s);
	*out = p;
	return g;
}

static void do_send(uint8_t sender, int g, void *p)
{
	uint32_t s = g % depth;
	slot[s].state = S_SENT;		/* at invoke: from now on the receiver may take it */
	claim[g].sent = true;
	if (g < last_sent_g)
		sim_probe(P_SEND_OUT_OF_CLAIM_ORDER);
	last_sent_g = g;
	sim_ev("send.inv", sender, g, 0);
	evno++;
	messageq_send(mq, p);
	evno++;
	sim_ev("send.ret", sender, g, 0);
	sim_ops(1);
}

/* one sender round: claim, write the payload, send */
static bool sender_round(uint8_t sender)
{
	void *p;
	int g = do_claim(sender, &p);
	if (g < 0)
		return false;
	uint8_t buf[64];
	payload_fill(buf, sender, snd[sender].seq);
	snd[sender].seq++;
	uint32_t sw0 = simrt_switches();
	simrt_point();
	shim_copy_in(p, buf, pay_len);		/* plain stores, visible to the runtime */
	simrt_point();
	if (simrt_switches() != sw0)
		sim_probe(P_STALLED_BETWEEN_CLAIM_AND_SEND);
	do_send(sender, g, p);
	return true;
}

static void sender_ctx(void *arg)
{
	uint8_t s = (uint8_t)(uintptr_t)arg;
	for (uint32_t r = 0; r < snd[s].rounds; r++) {
		uint32_t tries = 0;
		while (!sender_round(s) && tries++ < snd[s].retry)
			simrt_spin_hint();
	}
	snd[s].done = true;
	senders_done++;
}

/* receiver: one receive attempt (plus payload check); releases lag by hold_max */
static bool receiver_step(void)
{
	sim_ev("recv.inv", 0, 0, 0);
	evno++;
	uint8_t *p = messageq_receive(mq);
	evno++;
	sim_ops(1);
	if (!p) {
		if (n_received < n_claims && !claim[n_received].sent)
			sim_probe(P_RECEIVE_BLOCKED);
		sim_ev("recv.ret", -1, 0, 0);
		return false;
	}
	ptrdiff_t off = p - store;
	if (off < 0 || off % msg_len || off / msg_len >= depth)
		sim_fail(NULL, "BAD_POINTER", "receive returned offset %td", off);
	uint32_t s = off / msg_len;
	int g = n_received;			/* messages must arrive in claim order */
	uint8_t got[64], want[64];
	simrt_point();
	shim_copy_out(got, p, pay_len);		/* plain loads, visible to the runtime */
	sim_ev("recv.ret", g, s, got[0]);
	if (s != (uint32_t)g % depth || slot[s].state != S_SENT) {
		const char *st = slot[s].state == S_FREE ? "free" : slot[s].state == S_CLAIMED ?
			"claimed but not sent" : slot[s].state == S_RECEIVED ? "already held by the receiver" : "sent";
		if (slot[s].state == S_RECEIVED)
			sim_fail(NULL, "DUPLICATE", "receive number %d returned buffer %u which the receiver already holds", g, s);
		if (slot[s].state != S_SENT)
			sim_fail(NULL, "PHANTOM", "receive number %d returned buffer %u which is %s", g, s, st);
		sim_fail(NULL, "ORDER", "receive number %d returned buffer %u; claim order requires buffer %u", g, s, g % depth);
	}
	if (claim[g].received)
		sim_fail(NULL, "DUPLICATE", "claim number %d was received twice", g);
	payload_fill(want, claim[g].sender, claim[g].seq);
	if (memcmp(got, want, pay_len)) {
		/* somebody else's intact payload, or garbage? */
		for (uint32_t k = 0; k < n_claims; k++) {
			payload_fill(want, claim[k].sender, claim[k].seq);
			if (!memcmp(got, want, pay_len))
				sim_fail(NULL, "ORDER", "receive number %d delivered the payload of claim number %u", g, k);
		}
		sim_fail(NULL, "CORRUPT", "receive number %d (sender %u, sequence %u) delivered bytes nobody wrote for it",
			 g, claim[g].sender, claim[g].seq);
	}
	claim[g].received = true;
	slot[s].state = S_RECEIVED;
	n_received++;
	if (n_received - n_released > 1)
		sim_probe(P_HELD_SEVERAL);
	return true;
}

static void receiver_release_one(void)
{
	uint32_t s = n_released % depth;
	slot[s].state = S_FREE;		/* at invoke: the conservative end of ownership */
	sim_ev("rel.inv", s, 0, 0);
	evno++;
	messageq_release(mq, store + s * msg_len);
	evno++;
	n_released++;
	U--;
	sim_ev("rel.ret", s, 0, 0);
	sim_ops(1);
}

static void receiver_ctx(void *arg)
{
	(void)arg;
	uint32_t idle = 0;
	for (;;) {
		bool got = receiver_step();
		while (n_received - n_released > hold_max || (!got && n_received > n_released))
			receiver_release_one();
		if (!got) {
			if (senders_done == nsenders && n_received == n_claims)
				break;
			if (++idle > 4000)
				break;	/* quiescence check below will tell what is missing */
			simrt_spin_hint();
		}
	}
}

static uint32_t irq_sender_next;

static void irq_handler(int depth_now)
{
	sim_fault(depth_now > 1 ? F_IRQ_NESTED : F_IRQ);
	/* the handler is a sender doing one claim-write-send round */
	for (uint32_t k = 0; k < nsenders; k++) {
		uint32_t s = (irq_sender_next + k) % nsenders;
		if (snd[s].rounds) {
			snd[s].rounds--;
			irq_sender_next = s + 1;
			sender_round(s);
			return;
		}
	}
}

static void run(void)
{
	bool races = sim_prop_is("C07");
	mode = races ? 0 : sim_choose(2);	/* 0 thr, 1 irq */
	uint32_t r = sim_choose(12);
	depth = r < 8 ? 1 + r : r < 10 ? 1 + sim_choose(4) : r == 10 ? 32 : 9 + sim_choose(23);
	msg_len = 1 + sim_choose(24);
	if (sim_chance(1, 25)) {
		/* large messages (only their first 24 bytes carry the stamp): slot arithmetic on big offsets */
		static const uint16_t big[] = { 255, 1000, 2183, 3000, 4000, 4096, 5000, 7000, 8191 };
		msg_len = big[sim_choose(9)];
		sim_probe(P_BIG_MESSAGES);
	}
	pay_len = msg_len < 24 ? msg_len : 24;
	nsenders = 1 + sim_choose(MAXSENDERS);
	hold_max = sim_choose(3) ? 0 : sim_choose(depth + 1);
	uint32_t total = depth * (1 + sim_choose(3)) + sim_choose(4);
	if (total > 128)
		total = 128;
	if (sim_chance(1, 40)) {
		/* a long-lived queue whose depth does not divide 256: 8-bit cursors and counters wrap */
		static const uint8_t odd[] = { 3, 5, 6, 7 };
		depth = odd[sim_choose(4)];
		total = 270 + sim_choose(300);
		sim_probe(P_LONG_LIVED);
	}
	int strat = sim_choose(SIMRT_NSTRAT);
	uint32_t sparam = strat == SIMRT_STRAT_PCT ? 1 + sim_choose(4) :
			  strat == SIMRT_STRAT_KPREEMPT ? 1 + sim_choose(3) : 1 + sim_choose(4);
	if (depth == 1) sim_probe(P_DEPTH1);
	if (depth == 32) sim_probe(P_DEPTH32);
	sim_ev("hdr", mode, depth * 100 + msg_len, nsenders);

	store = sim_alloc_guarded(depth * msg_len, 32, 0xb6);
	mq = sim_alloc_guarded(sizeof(*mq), 16, 0x6b);
	simrt_region_add(store, depth * msg_len, SIMRT_SHARED, "message-storage");
	simrt_region_add(mq, sizeof(*mq), SIMRT_SHARED, "queue-descriptor");
	simrt_bounds(true);
	sim_budget(total > 200 ? 40000000 : 1500000);
	messageq_init(mq, store, depth * msg_len, msg_len);

	memset(slot, 0, sizeof(slot));
	memset(inprog, 0, sizeof(inprog));
	memset(snd, 0, sizeof(snd));
	n_claims = n_received = n_released = U = 0;
	n_inprog_active = n_refusing = 0;
	max_g_returned = -1;
	senders_done = 0;
	evno = 0;
	last_sent_g = -1;
	irq_sender_next = 0;

	for (uint32_t i = 0; i < total; i++)
		snd[sim_choose(nsenders)].rounds++;
	for (uint32_t s = 0; s < nsenders; s++)
		snd[s].retry = sim_choose(3) ? sim_choose(6) : 0;

	sim_seg();	/* the schedule */
	if (mode == 0) {
		sim_probe(P_MODE_THR);
		simrt_mode(SIMRT_THR);
		simrt_races(races);	/* the race detector decides C07 only; elsewhere the functional oracles must see the consequences */
		simrt_strategy(strat, sparam);
		if (strat == SIMRT_STRAT_STALL)
			sim_fault(F_STALL);
		for (uint32_t s = 0; s < nsenders; s++)
			simrt_spawn(sender_ctx, (void *)(uintptr_t)s);
		simrt_spawn(receiver_ctx, NULL);
		simrt_run_all();
		if (simrt_switches() > nsenders + 1)
			sim_fault(F_PREEMPT);
	} else {
		sim_probe(P_MODE_IRQ);
		simrt_mode(SIMRT_IRQ);
		simrt_irq_handler(irq_handler, 2);
		simrt_irq_plan(total > 32 ? 32 : total, 1 + sim_choose(sim_choose(2) ? 10 : 50));
		recv_attempts = 2 * total + 4;
		uint32_t planned = total > 32 ? 32 : total;
		for (uint32_t i = 0; i < recv_attempts; i++) {
			if (!simrt_irq_pending() && planned < total) {
				uint32_t n = total - planned > 32 ? 32 : total - planned;
				planned += n;
				simrt_irq_plan(n, 1 + sim_choose(30));
			}
			bool got = receiver_step();
			while (n_received - n_released > hold_max || (!got && n_received > n_released))
				receiver_release_one();
		}
		simrt_irq_mask(true);
		senders_done = nsenders;
	}
	simrt_mode(SIMRT_SEQ);

	/* quiescence: drain, then the free count must equal capacity minus what is held */
	for (uint32_t i = 0; i < 2 * depth + 2; i++)
		if (!receiver_step())
			break;
	for (uint32_t g = 0; g < MAXCLAIMS && g < n_claims + depth; g++) {
		uint32_t s = g % depth;
		if (g / depth < slot[s].rounds && claim[g].sent && !claim[g].received)
			sim_fail(NULL, "LOST", "claim number %u (sender %u, sequence %u) was sent but never received",
				 g, claim[g].sender, claim[g].seq);
	}
	uint32_t held = n_received - n_released;
	/* claimed-but-never-sent buffers cannot exist: every successful claim was sent */
	uint32_t ok = 0;
	for (uint32_t i = 0; i < depth + 2; i++) {
		void *p;
		snd[0].seq = 0x3fff;
		if (do_claim(0, &p) >= 0)
			ok++;
		else
			break;
	}
	sim_probe(P_CONSERVATION_CHECKED);
	if (ok != depth - held)
		sim_fail(NULL, "FREE_COUNT", "at quiescence %u further claim(s) succeeded; capacity %u minus %u held message(s) is %u",
			 ok, depth, held, depth - held);
	sim_check_guards();
}

const sim_harness_t sim_harness = {
	.name = "h_mq",
	.flavour = "sim",
	.run = run,
	.fault_names = fault_names,
	.probe_names = probe_names,
	.min_ops = 6,
	.rule = "one case = one queue geometry (depth 1-32, message size 1-24), 1-4 sender programs "
		"(claim, write payload, send; tape-chosen retry policy), one receiver with tape-chosen "
		"holding, message count a small multiple of the depth, and one schedule: free-running "
		"threads under random / PCT / k-preemption / stall strategies, or nested interrupt "
		"handlers (depth 2) acting as senders inside the receiver; non-trivial = at least 6 calls "
		"and at least one preemption, interrupt or refused claim; distinct = distinct hash of the "
		"invoke/return event sequence",
	.real = "librfn/messageq.c, messageq.h, atomic.h (C11 branch), compiled with TSan instrumentation",
	.stub = "threads and interrupt handlers are simulator contexts; no libtsan (own runtime)",
};

int main(int argc, char **argv)
{
	return sim_main(argc, argv);
}
