/*
 * h_mlog - C20: memory log against a deque-of-256 model, including the
 * message counter's fold point after 2^31 messages.
 *
 * Faults: counter_jump (the counter word, located in the library's data
 * segment by behaviour and not by name, is moved to just below the fold point,
 * congruent modulo 256 - a state identical to really having logged that many
 * messages), alloc_fail in mlog_get_line, short writes / errors in the dump
 * sink.  The thorough tier also really logs 2^31+ messages (index 0).
 */
#include "sim.h"

#include <stdarg.h>
#include <stdlib.h>
#include <string.h>
#include <librfn/mlog.h>

enum { F_COUNTER_JUMP, F_ALLOC_FAIL, F_SINK_SHORT, F_SINK_ERROR, F_BRUTE_FORCE_WRAP };
static const char *const fault_names[] = { "counter_jump", "alloc_fail", "sink_short_write",
					   "sink_error", "really_logged_2^31_messages", NULL };
enum { P_FOLD_CROSSED, P_WRAPPED_256, P_NICE_REFUSED, P_NICE_ACCEPTED, P_NEG_INDEX, P_INDEX_PAST,
       P_CLEAR_AFTER_WRAP, P_EXACT_256, P_DUMP_FULL, P_SHORTCUT_VALIDATED, P_SHORTCUT_MISMATCH,
       P_COUNTER_NOT_FOUND, P_JUMP_NOT_NEUTRAL, P_VA_LIST_ENTRY };
static const char *const probe_names[] = {
	"counter_fold_crossed", "ring_wrapped", "nice_refused", "nice_accepted", "negative_index",
	"index_at_or_past_count", "clear_after_wrap", "exactly_256_messages", "dump_of_full_ring",
	"jump_shortcut_equals_brute_force_state", "jump_shortcut_differs_from_brute_force_state",
	"counter_word_not_located", "jump_undone_because_it_changed_the_visible_lines",
	"logged_through_vmlog_or_vmlog_nice", NULL };

static const char *const fmts[] = {
	"plain message\n",
	"value %lu\n",
	"pair %lu/%lx\n",
	"triple %lu %lu %lu\n",
	"str %s!\n",
	"mix %s=%lu (%lx)\n",
	"",
	"no newline",
	/* width and precision taken from the arguments, in every position of the conversion */
	"w [%*lu]\n",
	"p [%.*s] %lu\n",
	"l [%-*lx] %lu\n",
	"z [%0*lx]\n",
	"%s",
	/* a literal percent sign in front of the conversions */
	"load %lu%% on %s, %lu errors|\n",
	"100%% %s%%%lu\n",
};
#define NFMT 15
static const char *const strs[] = { "alpha", "", "a somewhat longer string argument", "%d" };
/* string arguments of every length 0..99, so formatted lines cluster around 60-100 characters */
static const char longstr[] = "0123456789abcdefghijklmnopqrstuvwxyzABCDEFGHIJKLMNOPQRSTUVWXYZ0123456789abcdefghijklmnopqrstuvwxyz-+";

typedef struct {
	uint8_t fmt;
	uintptr_t a[3];
} ent_t;

static ent_t ring[256];
static uint64_t n_since_clear;	/* model: messages recorded since the last clear */
static uint64_t total;

static volatile uint32_t *counter;

static void tick(void)
{
	mlog(fmts[0], (uintptr_t)0, (uintptr_t)0, (uintptr_t)0);
}

static void init(void)
{
	counter = sim_lib_find_counter(tick);
	if (counter) {
		/* a word that went up by one per message three times is not yet "the message count":
		 * it must still equal the count after a thousand messages (a slot index with a
		 * "wrapped" flag above it, say, would not) */
		for (int i = 0; i < 1000; i++)
			tick();
		if (*counter != 1000)
			counter = NULL;
		sim_lib_restart();
	}
}

static void fmt_entry(char *out, size_t sz, const ent_t *e)
{
	snprintf(out, sz, fmts[e->fmt], e->a[0], e->a[1], e->a[2]);
}

static void gen_entry(ent_t *e)
{
	e->fmt = sim_choose(NFMT);
	e->a[0] = e->a[1] = e->a[2] = 0;
	switch (e->fmt) {
	case 1: e->a[0] = total; break;
	case 2: e->a[0] = sim_choose(1000); e->a[1] = total; break;
	case 3: e->a[0] = total; e->a[1] = sim_choose(7); e->a[2] = ~(uintptr_t)total; break;
	case 4: e->a[0] = sim_choose(3) ? (uintptr_t)strs[sim_choose(4)] : (uintptr_t)(longstr + sim_choose(40)); break;
	case 5: e->a[0] = sim_choose(3) ? (uintptr_t)strs[sim_choose(4)] : (uintptr_t)(longstr + sim_choose(60));
		e->a[1] = total; e->a[2] = sim_choose(65536); break;
	case 8: e->a[0] = sim_choose(13); e->a[1] = total; break;
	case 9: e->a[0] = sim_choose(13); e->a[1] = (uintptr_t)(longstr + sim_choose(60)); e->a[2] = total; break;
	case 10: e->a[0] = sim_choose(13); e->a[1] = total; e->a[2] = sim_choose(1000); break;
	case 11: e->a[0] = sim_choose(13); e->a[1] = total * 977; break;
	case 12: e->a[0] = sim_choose(2) ? (uintptr_t)strs[1] : (uintptr_t)strs[sim_choose(4)]; break;
	case 13: e->a[0] = sim_choose(101); e->a[1] = (uintptr_t)strs[sim_choose(4)]; e->a[2] = sim_choose(3) ? 0 : total; break;
	case 14: e->a[0] = (uintptr_t)strs[sim_choose(4)]; e->a[1] = sim_choose(2) ? 0 : total; break;
	}
}

static void m_record(const ent_t *e)
{
	ring[n_since_clear % 256] = *e;
	n_since_clear++;
	total++;
}

/* model: entry for line k, or NULL */
static const ent_t *m_line(int64_t k)
{
	uint64_t have = n_since_clear < 256 ? n_since_clear : 256;
	if (k < 0 || (uint64_t)k >= have)
		return NULL;
	return &ring[(n_since_clear - have + k) % 256];
}

/* the va_list entry points, as a caller with its own variadic wrapper uses them */
static void via_vmlog(bool nice, const char *fmt, ...)
{
	va_list ap;
	va_start(ap, fmt);
	if (nice)
		vmlog_nice(fmt, ap);
	else
		vmlog(fmt, ap);
	va_end(ap);
}

static void do_log(bool nice)
{
	ent_t e;
	gen_entry(&e);
	sim_budget(100000);
	if (sim_chance(1, 4)) {
		sim_probe(P_VA_LIST_ENTRY);
		via_vmlog(nice, fmts[e.fmt], e.a[0], e.a[1], e.a[2]);
		if (!nice || n_since_clear < 256) {
			m_record(&e);
			if (nice)
				sim_probe(P_NICE_ACCEPTED);
		} else {
			sim_probe(P_NICE_REFUSED);
		}
	} else if (nice) {
		mlog_nice(fmts[e.fmt], e.a[0], e.a[1], e.a[2]);
		if (n_since_clear < 256) {
			m_record(&e);
			sim_probe(P_NICE_ACCEPTED);
		} else {
			sim_probe(P_NICE_REFUSED);
		}
	} else {
		mlog(fmts[e.fmt], e.a[0], e.a[1], e.a[2]);
		m_record(&e);
	}
	if (n_since_clear == 257)
		sim_probe(P_WRAPPED_256);
	sim_ops(1);
}

static void check_line(int k, bool inject_alloc_fail)
{
	char want[320];
	const ent_t *e = m_line(k);
	if (k < 0)
		sim_probe(P_NEG_INDEX);
	else if (!e)
		sim_probe(P_INDEX_PAST);
	if (inject_alloc_fail)
		sim_alloc_fail_next(1);
	sim_budget(100000);
	char *got = mlog_get_line(k);
	sim_alloc_fail_next(0);
	bool failed = sim_alloc_fail_fired() > 0;
	if (failed)
		sim_fault(F_ALLOC_FAIL);
	sim_check_sanitizer();
	sim_ops(1);
	if (!e) {
		if (got)
			sim_fail(NULL, "RANGE", "mlog_get_line(%d) returned \"%.40s\" but only %llu message(s) are held",
				 k, got, (unsigned long long)(n_since_clear < 256 ? n_since_clear : 256));
		sim_ev("line", k, -1, 0);
		return;
	}
	fmt_entry(want, sizeof(want), e);
	if (!got) {
		if (failed) {
			sim_ev("line", k, -2, 0);
			return;		/* allocation failure: NULL is acceptable for this call only */
		}
		sim_fail(NULL, "RANGE", "mlog_get_line(%d) returned NULL with %llu message(s) recorded since the clear",
			 k, (unsigned long long)n_since_clear);
	}
	if (strcmp(got, want))
		sim_fail(NULL, "LINE", "mlog_get_line(%d) = \"%.60s\", expected \"%.60s\" (message %llu of %llu)",
			 k, got, want,
			 (unsigned long long)(n_since_clear - (n_since_clear < 256 ? n_since_clear : 256) + k),
			 (unsigned long long)n_since_clear);
	sim_ev("line", k, e->fmt, strlen(got));
	free(got);
}

static void check_dump(bool faulty_sink)
{
	static char want[256 * 160];
	size_t wl = 0;
	for (int k = 0; m_line(k); k++) {
		fmt_entry(want + wl, sizeof(want) - wl, m_line(k));
		wl += strlen(want + wl);
	}
	FILE *f = sim_sink_open();
	sim_sink_reset();
	if (faulty_sink)
		sim_sink_set_faults(200, sim_choose(2) ? 30 : 0);
	sim_budget(10000000);
	mlog_dump(f);
	size_t gl;
	bool err = ferror(f);
	const char *got = sim_sink_text(&gl);
	sim_sink_set_faults(0, 0);
	if (faulty_sink)
		sim_fault(F_SINK_SHORT);
	if (err)
		sim_fault(F_SINK_ERROR);
	sim_check_sanitizer();
	sim_ops(1);
	if (n_since_clear >= 256)
		sim_probe(P_DUMP_FULL);
	sim_ev("dump", gl, err, 0);
	if (err) {
		/* a write error loses output; what did get through must be a prefix-consistent subsequence:
		 * not judged beyond memory safety */
		return;
	}
	if (gl != wl || memcmp(got, want, wl))
		sim_fail(NULL, "DUMP", "mlog_dump wrote %zu bytes, expected %zu (the %llu held lines in order)",
			 gl, wl, (unsigned long long)(n_since_clear < 256 ? n_since_clear : 256));
}

static void jump_counter(void)
{
	/* only meaningful when the counter really is the message count */
	if (!counter) {
		sim_probe(P_COUNTER_NOT_FOUND);
		return;
	}
	if (n_since_clear < 256 || *counter != (uint32_t)n_since_clear)
		return;
	uint32_t below = 1 + sim_choose(600);
	uint32_t t = 0x7fffffffu - below;
	t = (t & ~255u) | (*counter & 255u);
	if (t >= 0x7fffffffu)
		t -= 256;
	/* the jump claims to be a state the library could have reached by itself, so at the moment
	 * it is made it must be invisible: the same lines before and after.  If it is not, the
	 * located word is not what the shortcut assumes; the jump is undone and not used. */
	static const int probe_at[] = { 0, 1, 128, 254, 255, 256 };
	char *before[6], *after[6];
	uint32_t old = *counter;
	for (int i = 0; i < 6; i++)
		before[i] = mlog_get_line(probe_at[i]);
	*counter = t;
	bool neutral = true;
	for (int i = 0; i < 6; i++) {
		after[i] = mlog_get_line(probe_at[i]);
		if (!before[i] != !after[i] || (before[i] && strcmp(before[i], after[i])))
			neutral = false;
	}
	for (int i = 0; i < 6; i++) {
		free(before[i]);
		free(after[i]);
	}
	if (!neutral) {
		*counter = old;
		sim_probe(P_JUMP_NOT_NEUTRAL);
		return;
	}
	n_since_clear = t;
	sim_fault(F_COUNTER_JUMP);
	sim_ev("jump", t, 0, 0);
}

static void brute_force(uint64_t target)
{
	/* really log up to just below the fold point (or 2^32), then check the state shortcut */
	ent_t e = { 0 };
	sim_budget(~0ull >> 2);
	while (n_since_clear < target) {
		e.fmt = 1 + (n_since_clear & 1);
		e.a[0] = n_since_clear;
		e.a[1] = n_since_clear ^ 0x55;
		mlog(fmts[e.fmt], e.a[0], e.a[1], e.a[2]);
		ring[n_since_clear % 256] = e;
		n_since_clear++;
	}
	total = n_since_clear;
	sim_fault(F_BRUTE_FORCE_WRAP);
	if (counter && *counter == (uint32_t)n_since_clear) {
		uint64_t h_real = sim_lib_data_hash();
		/* reach the same state through the shortcut */
		sim_lib_restart();
		for (uint64_t i = 0; i < (target - 512) % 256; i++)
			tick();		/* align the ring position with the real history */
		for (uint64_t i = target - 512; i < target; i++) {
			e.fmt = 1 + (i & 1);
			e.a[0] = i;
			e.a[1] = i ^ 0x55;
			mlog(fmts[e.fmt], e.a[0], e.a[1], e.a[2]);
		}
		*counter = (uint32_t)target;
		uint64_t h_jump = sim_lib_data_hash();
		sim_probe(h_real == h_jump ? P_SHORTCUT_VALIDATED : P_SHORTCUT_MISMATCH);
		sim_ev("shortcut", h_real == h_jump, 0, 0);
		/* continue from the really reached state: it is identical when validated;
		 * otherwise the remaining history runs on the shortcut state and says so */
	}
}

static void run(void)
{
	n_since_clear = 0;
	total = 0;
	/* thorough tier: run 0 really logs up to the 2^31 fold point, run 1 up to 2^32 (where a
	 * 32-bit message count would wrap); both then continue with an ordinary history across it */
	bool brute = sim_thorough() && sim_run_index() <= 1;
	uint32_t nops = 3 + sim_choose(48);
	/* steer the message count: burst sizes come from this menu */
	static const uint16_t bursts[] = { 1, 2, 3, 254, 255, 256, 257, 258, 511, 512, 513, 40, 700 };
	bool faults_on = sim_choose(3) != 0;
	bool allow_jump = faults_on && sim_choose(2);
	bool allow_alloc = faults_on && sim_choose(2);
	bool allow_sink = faults_on && sim_choose(2);
	sim_ev("hdr", nops, faults_on, brute);

	if (brute)
		brute_force(sim_run_index() == 0 ? 0x7fffffffull - 1 - 150 : 0x100000000ull - 150);

	uint64_t before_fold;
	for (uint32_t step = 0; step < nops && !sim_tape_done(); step++) {
		sim_seg();
		uint32_t op = sim_choose(12);
		switch (op) {
		case 0: case 1: {	/* burst of mlog */
			uint32_t n = bursts[sim_choose(sizeof(bursts) / sizeof(bursts[0]))];
			bool nice = sim_chance(1, 6);
			before_fold = n_since_clear;
			for (uint32_t i = 0; i < n; i++)
				do_log(nice);
			if (before_fold < 0x7fffffffull && n_since_clear >= 0x7fffffffull)
				sim_probe(P_FOLD_CROSSED);
			sim_ev("burst", n, nice, n_since_clear & 0xffff);
			break;
		}
		case 2: do_log(false); sim_ev("log", 0, 0, 0); break;
		case 3:
			before_fold = n_since_clear;
			do_log(true);
			sim_ev("nice", n_since_clear != before_fold, 0, 0);
			break;
		case 4:
			if (sim_chance(1, 3)) {
				if (n_since_clear > 256)
					sim_probe(P_CLEAR_AFTER_WRAP);
				sim_budget(100000);
				mlog_clear();
				n_since_clear = 0;
				sim_ops(1);
				sim_ev("clear", 0, 0, 0);
			}
			break;
		case 5: case 6: case 7: {	/* point reads around the interesting indices */
			int have = n_since_clear < 256 ? (int)n_since_clear : 256;
			static const int rel[] = { -3, -1, 0, 1, 2 };
			int k;
			switch (sim_choose(4)) {
			case 0: k = rel[sim_choose(5)]; break;
			case 1: k = have + rel[sim_choose(5)] - 1; break;
			case 2: k = 255 + (int)sim_choose(6) - 1; break;
			default: k = (int)sim_choose(262) - 1; break;
			}
			check_line(k, allow_alloc && sim_chance(1, 4));
			break;
		}
		case 8: {	/* sweep of every index */
			for (int k = -2; k < 259; k++)
				check_line(k, false);
			break;
		}
		case 9: check_dump(allow_sink && sim_chance(1, 2)); break;
		case 10:
			if (allow_jump)
				jump_counter();
			break;
		case 11: {	/* bring the count to exactly 256 */
			if (n_since_clear < 256) {
				while (n_since_clear < 256)
					do_log(false);
				sim_probe(P_EXACT_256);
				sim_ev("fill256", 0, 0, 0);
			}
			break;
		}
		}
	}
	/* closing sweep: everything held must read back */
	for (int k = -1; k < 258; k++)
		check_line(k, false);
	check_dump(false);
	sim_ticks(total);
}

const sim_harness_t sim_harness = {
	.name = "h_mlog",
	.flavour = "asan",
	.run = run,
	.init = init,
	.fault_names = fault_names,
	.probe_names = probe_names,
	.min_ops = 10,
	.rule = "one case = one generated history of mlog / mlog_nice / mlog_clear / mlog_get_line / "
		"mlog_dump calls with message counts steered to 0,1,255..258,511..513 and multiples, "
		"optionally with the message counter moved to just below its fold point (state "
		"identical to having logged ~2^31 messages), failing allocations and a faulty dump "
		"sink; every read is compared with a deque-of-256 model; non-trivial = at least 10 "
		"library calls and at least one fault or boundary probe; distinct = distinct hash of "
		"the operation/result event sequence",
	.real = "librfn/mlog.c, string.c (strdup_printf)",
	.stub = "FILE* sink for mlog_dump (fopencookie, simulator-owned); malloc wrapped for failure injection",
};

int main(int argc, char **argv)
{
	return sim_main(argc, argv);
}
