/*
 * h_mqseq - C10: message queue as a bounded FIFO of fixed buffers, for every
 * geometry, under sequential histories (history + geometry knobs; the only
 * "fault" is resource exhaustion: a full queue).
 *
 * The same history is applied in lock step to a queue built by messageq_init()
 * and to one built by MESSAGEQ_VAR_INIT with run-time values.
 */
#include "sim.h"

#define _GNU_SOURCE
#include <string.h>
#include <sys/mman.h>
#include <librfn/messageq.h>

enum { F_QUEUE_FULL };
static const char *const fault_names[] = { "queue_full_claim_refused", NULL };
enum { P_DEPTH1, P_DEPTH32, P_WRAPPED, P_SEND_REORDERED, P_RECEIVE_BLOCKED, P_SLACK, P_HELD_DELAYED,
       P_NON_POW2_SIZE, P_BOTH_ROUTES, P_EMPTY_TRUE, P_EMPTY_FALSE, P_FULL_THEN_RELEASE, P_LONG_HISTORY,
       P_CLAIMS_OVER_256, P_BIG_MESSAGES, P_STORAGE_OVER_64K,
       P_INIT_EXPRESSIONS, P_CLAIMS_OVER_65536, P_MISALIGNED_BASE, P_ACROSS_4GIB };
static const char *const probe_names[] = {
	"depth_1", "depth_32", "slot_index_wrapped", "send_out_of_claim_order",
	"receive_blocked_by_unsent_oldest", "slack_bytes_present", "release_delayed",
	"message_size_not_power_of_two", "both_construction_routes_in_lock_step",
	"empty_reported_true", "empty_reported_false", "claim_succeeds_after_release_of_full_queue",
	"history_of_900_to_2400_operations", "more_than_256_claims_on_one_queue",
	"message_size_255_to_65535", "storage_larger_than_64KiB",
	"static_initialiser_given_expression_arguments", "more_than_65536_claims_on_one_queue",
	"base_address_not_aligned", "memory_across_a_multiple_of_4GiB", NULL };

#define MAXDEPTH 32

typedef struct {
	messageq_t *mq;
	uint8_t *store;
	uint32_t lead;		/* bytes of the caller's pool in front of the queue's memory */
	uint32_t trail;		/* guard bytes behind it (only where no sanitizer redzone follows) */
} route_t;

static void *placed_map;	/* memory mapped at a chosen address for this run */
static size_t placed_len;

static route_t rt[2];
static int nroutes;
static uint32_t depth, msg_len, slack, base_len;

/* model */
static uint64_t n_claim, n_recv, n_rel;	/* counts of successful claims, receives, releases */
static bool sent[MAXDEPTH];		/* by slot */
static uint32_t stamp[MAXDEPTH];	/* payload stamp by slot */
static bool was_full;

static void fill_payload(uint8_t *p, uint32_t st)
{
	for (uint32_t i = 0; i < msg_len; i++) {
		if (i == 64 && msg_len > 192)
			i = msg_len - 64;	/* big messages: stamp both ends only */
		p[i] = (uint8_t)(st * 7 + i * 13 + 1);
	}
}

static bool payload_ok(const uint8_t *p, uint32_t st)
{
	for (uint32_t i = 0; i < msg_len; i++) {
		if (i == 64 && msg_len > 192)
			i = msg_len - 64;
		if (p[i] != (uint8_t)(st * 7 + i * 13 + 1))
			return false;
	}
	return true;
}

static void check_slack(const char *after)
{
	for (int r = 0; r < nroutes; r++) {
		for (uint32_t i = depth * msg_len; i < base_len; i++)
			if (rt[r].store[i] != (uint8_t)(0xc3 ^ i))
				sim_fail(NULL, "SLACK_TOUCHED", "after %s: trailing byte %u of the caller's memory changed", after, i);
		for (uint32_t i = 0; i < rt[r].lead; i++)
			if (rt[r].store[(int)i - (int)rt[r].lead] != (uint8_t)(0x3c ^ i))
				sim_fail(NULL, "OUTSIDE_TOUCHED", "after %s: byte %u of the pool in front of the queue's memory changed", after, i);
		for (uint32_t i = 0; i < rt[r].trail; i++)
			if (rt[r].store[base_len + i] != (uint8_t)(0x69 ^ i))
				sim_fail(NULL, "OUTSIDE_TOUCHED", "after %s: byte %u behind the queue's memory changed", after, i);
	}
}

static bool quiet;		/* inside a long run of plain cycles: no per-operation events */
static uint32_t next_stamp;
#define EV(...) do { if (!quiet) sim_ev(__VA_ARGS__); } while (0)

static void op_claim(bool always_send)
{
	void *res[2];
	bool expect = n_claim - n_rel < depth;
	uint32_t slot = n_claim % depth;
	for (int r = 0; r < nroutes; r++)
		res[r] = ONCE_V(1, messageq_claim(ARG(rt[r].mq)));
	for (int r = 0; r < nroutes; r++) {
		void *want = expect ? rt[r].store + slot * msg_len : NULL;
		if (res[r] != want) {
			if (!res[r])
				sim_fail(NULL, "CLAIM:spurious_null", "claim returned NULL with %llu of %u buffers claimed and unreleased (route %d)",
					 (unsigned long long)(n_claim - n_rel), depth, r);
			if (!expect)
				sim_fail(NULL, "CLAIM:overcommit", "claim returned offset %td although all %u buffers are claimed and unreleased (route %d)",
					 (uint8_t *)res[r] - rt[r].store, depth, r);
			sim_fail(NULL, "CLAIM:wrong_buffer", "claim %llu returned offset %td, expected slot %u at offset %u (depth %u, size %u, route %d)",
				 (unsigned long long)n_claim, (uint8_t *)res[r] - rt[r].store, slot, slot * msg_len, depth, msg_len, r);
		}
	}
	if (expect) {
		if (was_full) {
			sim_probe(P_FULL_THEN_RELEASE);
			was_full = false;
		}
		if (n_claim >= depth)
			sim_probe(P_WRAPPED);
		if (n_claim == 257)
			sim_probe(P_CLAIMS_OVER_256);
		if (n_claim == 65537)
			sim_probe(P_CLAIMS_OVER_65536);
		sent[slot] = false;
		stamp[slot] = next_stamp++;
		for (int r = 0; r < nroutes; r++)
			fill_payload(res[r], stamp[slot]);
		n_claim++;
		EV("claim", slot, 0, 0);
		/* usually send at once; sometimes leave it pending for a reordered send */
		if (always_send || sim_choose(4)) {
			for (int r = 0; r < nroutes; r++)
				ONCE(2, messageq_send(ARG(rt[r].mq), ARG(res[r])));
			sent[slot] = true;
			EV("send", slot, 0, 0);
		}
	} else {
		if (!quiet)
			sim_fault(F_QUEUE_FULL);
		was_full = true;
		EV("claim", -1, 0, 0);
	}
}

/* send a claimed, unsent message: the oldest (which 0), or any one chosen by the tape (which < 0:
 * possibly out of claim order) */
static void op_send_pending(int which)
{
	uint32_t cand[MAXDEPTH], nc = 0;
	for (uint64_t g = n_recv; g < n_claim; g++)
		if (!sent[g % depth])
			cand[nc++] = g % depth;
	if (nc) {
		uint32_t pick = which < 0 ? sim_choose(nc) : 0;
		uint32_t slot = cand[pick];
		if (pick > 0)
			sim_probe(P_SEND_REORDERED);
		for (int r = 0; r < nroutes; r++)
			ONCE(2, messageq_send(ARG(rt[r].mq), ARG(rt[r].store + slot * msg_len)));
		sent[slot] = true;
		EV("send", slot, 1, 0);
	}
}

static void op_receive(void)
{
	void *res[2];
	uint32_t slot = n_recv % depth;
	bool expect = n_recv < n_claim && sent[slot];
	if (n_recv < n_claim && !sent[slot])
		sim_probe(P_RECEIVE_BLOCKED);
	for (int r = 0; r < nroutes; r++)
		res[r] = ONCE_V(1, messageq_receive(ARG(rt[r].mq)));
	for (int r = 0; r < nroutes; r++) {
		void *want = expect ? rt[r].store + slot * msg_len : NULL;
		if (res[r] != want)
			sim_fail(NULL, "RECEIVE", "receive returned %s%td, expected %s (oldest claimed slot %u is %s; route %d)",
				 res[r] ? "offset " : "NULL ", res[r] ? (uint8_t *)res[r] - rt[r].store : 0,
				 expect ? "that slot" : "NULL", slot,
				 n_recv < n_claim ? (sent[slot] ? "sent" : "not yet sent") : "not claimed", r);
		if (expect && !payload_ok(res[r], stamp[slot]))
			sim_fail(NULL, "PAYLOAD", "message in slot %u does not hold what its claimer wrote", slot);
	}
	if (expect)
		n_recv++;
	EV("receive", expect ? (int)slot : -1, 0, 0);
}

static void op_release(void)
{
	if (n_rel < n_recv) {
		uint32_t slot = n_rel % depth;
		if (n_recv - n_rel > 1)
			sim_probe(P_HELD_DELAYED);
		for (int r = 0; r < nroutes; r++)
			ONCE(2, messageq_release(ARG(rt[r].mq), ARG(rt[r].store + slot * msg_len)));
		n_rel++;
		EV("release", slot, 0, 0);
	}
}

static void op_empty(void)
{
	bool expect = !(n_recv < n_claim && sent[n_recv % depth]);
	for (int r = 0; r < nroutes; r++) {
		bool e = ONCE_V(1, messageq_empty(ARG(rt[r].mq)));
		if (e != expect)
			sim_fail(NULL, "EMPTY", "messageq_empty returned %d but receive would %s (route %d)",
				 e, expect ? "return nothing" : "return a message", r);
	}
	sim_probe(expect ? P_EMPTY_TRUE : P_EMPTY_FALSE);
	EV("empty", expect, 0, 0);
}

static void run(void)
{
	if (placed_map) {
		munmap(placed_map, placed_len);
		placed_map = NULL;
	}
	static const uint8_t depths[] = { 1, 1, 2, 2, 3, 31, 32, 32, 8 };
	uint32_t d = sim_choose(sizeof(depths) + 4);
	depth = d < sizeof(depths) ? depths[d] : 1 + sim_choose(32);
	msg_len = sim_choose(4) ? 1 + sim_choose(40) : (1u << sim_choose(6));
	if (sim_chance(1, 40)) {
		/* "every message size": msg_len is 16 bits wide, storage may exceed 64 KiB */
		static const uint16_t big[] = { 255, 256, 257, 2048, 4095, 4096, 8192, 32768, 65535 };
		msg_len = big[sim_choose(9)];
		sim_probe(P_BIG_MESSAGES);
	}
	slack = sim_choose(2) ? sim_choose(msg_len) : 0;
	base_len = depth * msg_len + slack;
	if (base_len > 65536)
		sim_probe(P_STORAGE_OVER_64K);
	uint32_t route = sim_choose(3);		/* 0 init(), 1 static initialiser, 2 both */
	uint32_t nops = 10 + sim_choose(111);
	uint32_t bias = sim_choose(3);		/* 0 balanced, 1 producer heavy (full), 2 consumer heavy */
	if (sim_chance(1, 6)) {
		/* a long-lived queue: several hundred claims, so 8-bit cursors and counters wrap */
		nops = 900 + sim_choose(1500);
		bias = 0;
		sim_probe(P_LONG_HISTORY);
	}
	if (depth == 1) sim_probe(P_DEPTH1);
	if (depth == 32) sim_probe(P_DEPTH32);
	if (slack) sim_probe(P_SLACK);
	if (msg_len & (msg_len - 1)) sim_probe(P_NON_POW2_SIZE);
	sim_ev("hdr", depth, msg_len, slack * 4 + route);

	nroutes = route == 2 ? 2 : 1;
	if (route == 2) sim_probe(P_BOTH_ROUTES);
	for (int r = 0; r < nroutes; r++) {
		bool use_init = route == 0 || (route == 2 && r == 0);
		/* the static initialiser is a macro: sometimes its arguments are expressions (a base
		 * that is an offset into a pool of words, lengths that are sums and differences) */
		uint32_t lead = 0, trail = 0;
		bool expr = false;
		uint8_t *block;
		if (!use_init && sim_chance(1, 3)) {
			lead = 4 * (1 + sim_choose(3));
			expr = true;
		} else if (sim_chance(1, 4)) {
			/* a pool carved out of a byte array: any alignment */
			lead = 1 + sim_choose(7);
			sim_probe(P_MISALIGNED_BASE);
		}
		if (sim_chance(1, 60) && base_len > 1 && r == 0) {
			/* the caller's memory may be anywhere in the address space: here it lies across a
			 * multiple of 4 GiB (a pointer held in 32 bits loses the carry) */
			uintptr_t line = 0x7e0100000000ull + ((uintptr_t)sim_choose(4) << 32);
			uintptr_t start = line - (1 + sim_choose(base_len - 1));
			lead = trail = 16;
			uintptr_t lo = (start - lead) & ~(uintptr_t)4095;
			size_t maplen = ((start + base_len + trail + 4095) & ~(uintptr_t)4095) - lo;
			void *m = mmap((void *)lo, maplen, PROT_READ | PROT_WRITE,
				       MAP_PRIVATE | MAP_ANONYMOUS | MAP_FIXED_NOREPLACE, -1, 0);
			if (m == (void *)lo) {
				placed_map = m;
				placed_len = maplen;
				block = (uint8_t *)(start - lead);
				expr = false;
				sim_probe(P_ACROSS_4GIB);
			} else {
				lead = trail = 0;
				block = sim_alloc(base_len);
			}
		} else {
			block = sim_alloc(base_len + lead);	/* exact size: redzone behind (and in front when lead is 0) */
		}
		for (uint32_t i = 0; i < lead; i++)
			block[i] = (uint8_t)(0x3c ^ i);
		rt[r].store = block + lead;
		rt[r].lead = lead;
		rt[r].trail = trail;
		for (uint32_t i = 0; i < trail; i++)
			rt[r].store[base_len + i] = (uint8_t)(0x69 ^ i);
		for (uint32_t i = base_len > 8192 ? depth * msg_len : 0; i < base_len; i++)
			rt[r].store[i] = (uint8_t)(0xc3 ^ i);
		rt[r].mq = sim_alloc(sizeof(messageq_t));
		sim_budget(100000);
		if (use_init) {
			memset(rt[r].mq, 0x5a, sizeof(messageq_t));	/* init must not depend on prior contents */
			ONCE(4, messageq_init(ARG(rt[r].mq), ARG(rt[r].store), ARG(base_len), ARG(msg_len)));
		} else {
			if (expr) {
				uint32_t *pool = (uint32_t *)block;
				uint32_t words = lead / 4, total = base_len + lead, ml_a = msg_len - 1, ml_b = 1;
				messageq_t q = MESSAGEQ_VAR_INIT(pool + words, total - lead, ml_a + ml_b);
				memcpy(rt[r].mq, &q, sizeof(q));
				sim_probe(P_INIT_EXPRESSIONS);
			} else {
				messageq_t q = MESSAGEQ_VAR_INIT(rt[r].store, base_len, msg_len);
				memcpy(rt[r].mq, &q, sizeof(q));
			}
		}
	}
	n_claim = n_recv = n_rel = 0;
	memset(sent, 0, sizeof(sent));
	was_full = false;
	next_stamp = 1;
	quiet = false;

	uint32_t marathon_at = sim_chance(1, 300) ? sim_choose(nops) : UINT32_MAX;
	for (uint32_t step = 0; step < nops && !sim_tape_done(); step++) {
		sim_seg();
		if (step == marathon_at) {
			/* a very long-lived queue: tens of thousands of plain cycles, every one checked
			 * against the model, so that 16-bit counters and tickets wrap */
			static const uint32_t lens[] = { 300, 65530, 65536, 66000, 70000, 131100 };
			uint32_t k = lens[sim_choose(6)] + sim_choose(8);
			sim_ev("marathon", k, 0, 0);
			quiet = true;
			for (uint32_t i = 0; i < k; i++) {
				sim_budget(100000);
				op_send_pending(0);
				op_claim(true);
				op_receive();
				op_release();
				if ((i & 1023) == 0)
					check_slack("a long run of plain cycles");
			}
			quiet = false;
			sim_check_sanitizer();
			sim_ev("marathon_end", n_claim, n_recv, n_rel);
		}
		uint32_t op = sim_choose(10);
		/* 0-3 claim(+send), 4 send of a pending claim, 5-6 receive, 7-8 release, 9 empty */
		if (bias == 1 && op >= 5 && op <= 8 && sim_choose(2))
			op = 0;
		if (bias == 2 && op <= 3 && sim_choose(2))
			op = 5 + sim_choose(4);
		sim_budget(100000);
		if (op <= 3)
			op_claim(false);
		else if (op == 4)
			op_send_pending(-1);
		else if (op <= 6)
			op_receive();
		else if (op <= 8)
			op_release();
		else
			op_empty();
		sim_ops(1);
		sim_check_sanitizer();
		check_slack("an operation");
	}
}

const sim_harness_t sim_harness = {
	.name = "h_mqseq",
	.flavour = "asan",
	.run = run,
	.fault_names = fault_names,
	.probe_names = probe_names,
	.min_ops = 10,
	.rule = "one case = one (depth 1..32, message size 1..40 or up to 65535, slack) geometry, one construction route "
		"(messageq_init, MESSAGEQ_VAR_INIT with run-time values or expression arguments, or both in lock step) and one "
		"history of 10-120 (one run in six: 900-2400; one in 300: a further 300-131100 plain cycles, each checked) claim / reordered send / receive / delayed release / empty operations "
		"checked step by step against a bounded-FIFO model; non-trivial = at least 10 operations "
		"and a refused claim or boundary probe occurred; distinct = distinct hash of the "
		"geometry and operation/result event sequence",
	.real = "librfn/messageq.c, messageq.h (init, static initialiser, claim, send, receive, release, empty)",
	.stub = "none",
};

int main(int argc, char **argv)
{
	return sim_main(argc, argv);
}
