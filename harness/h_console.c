/*
 * h_console - C15 (and, in thr mode, the console_putchar part of C07).
 *
 * One character-stream generator, three delivery paths (one per run):
 *   asan flavour: (1) console_process per character, no scheduler;
 *                 (2) console_eval of whole strings from a second fibre under
 *                     the real scheduler;
 *   sim flavour:  (3) console_putchar from an interrupt handler or a thread at
 *                     tape-chosen scheduling points while a discrete-event
 *                     loop runs the console fibre.
 * Oracle: reference line editor + tokeniser + dispatch by exact name, applied
 * to the stream of characters that actually entered the ring (the producer
 * side knows exactly which characters a full ring dropped).
 */
#include "sim.h"
#ifdef SIM_FLAVOUR_SIM
#include "simrt.h"
#endif

#include <ctype.h>
#include <string.h>
#include <librfn/console.h>
#include <librfn/util.h>

enum { F_RING_OVERFLOW, F_IRQ, F_PREEMPT, F_TABLE_FULL, F_BACKSPACE_EMPTY, F_CTRL_C, F_LINE_OVERFLOW };
static const char *const fault_names[] = { "ring_overflow_char_dropped", "irq_inject", "thread_preempt",
					   "command_table_full", "backspace_on_empty_line", "ctrl_c",
					   "line_buffer_filled", NULL };
enum { P_PATH_PROCESS, P_PATH_EVAL, P_PATH_PUTCHAR_IRQ, P_PATH_PUTCHAR_THR, P_FOUR_ARGS, P_MORE_THAN_FOUR,
       P_QUOTED, P_LINE_79, P_EVAL_LONGER_THAN_RING, P_EVAL_MULTI_LINE, P_YIELDING_CMD, P_SLEEPING_CMD,
       P_INPUT_WHILE_CMD_RUNS, P_REGISTER_REFUSED, P_UNKNOWN_LINE, P_EMPTY_LINE, P_ARGS_JUDGED,
       P_LEADING_SPACE_LINE, P_FAILING_CMD, P_BUILTIN, P_CMD_DIRTIED_SCRATCH,
       P_FINALE_QUEUE_EXACTLY_FULL, P_CONSOLE_IRQ_NESTED_IN_TICK, P_SECOND_CONSOLE,
       P_LONG_NAME, P_LONG_YIELD };
static const char *const probe_names[] = {
	"path_console_process", "path_console_eval", "path_putchar_irq", "path_putchar_thread",
	"line_with_exactly_four_arguments", "tokeniser_stopped_at_four_arguments", "quoted_argument",
	"line_hit_79_characters", "eval_string_longer_than_ring", "eval_multi_line", "yielding_command_ran",
	"sleeping_command_ran", "input_arrived_while_command_running", "registration_refused_table_full",
	"unknown_command_line", "empty_line", "arguments_judged", "line_with_leading_space_or_quote",
	"failing_command_ran", "builtin_command_line", "command_stored_state_in_scratch",
	"last_newline_followed_by_exactly_full_wakeup_queue",
	"console_interrupt_nested_inside_another_source",
	"second_console_instance_evaluating_concurrently",
	"line_naming_a_38_character_command_or_a_near_miss", "command_yielded_over_1000_times", NULL };

/* ---- commands ---------------------------------------------------------------- */

enum { K_CAP, K_YLD, K_BLK, K_SLP, K_FAIL, K_FILL };
typedef struct {
	console_cmd_t cmd;
	int kind, idx;
	bool registered;
} tcmd_t;

#define NCMDS 36
static tcmd_t cmds[NCMDS];
static char names[NCMDS][48];
static bool long_names;	/* two of the commands have 38/39-character names sharing their first 32 */
#define LONG_STEM "measure_the_ambient_temperature_"
static int n_registered;

/* what the commands saw */
#define MAXREC 48
static struct {
	int idx, argc;
	char argv[4][84];
} rec[MAXREC];
static int nrec;

static console_t *con;
static uint32_t now;
static int cmd_left;
static uint32_t cmd_due;
static bool use_fibre_timeout;
static bool cmd_running;
static bool allow_long_yield;	/* only where the real scheduler runs the console and nothing bounds the passes */

/* a second, independent console instance (console_t is an instance type): what its commands saw */
static console_t *con2;
static char by_log[2048];
static int by_len;

static pt_state_t cmd_fn(console_t *c)
{
	tcmd_t *t = containerof(c->cmd, tcmd_t, cmd);
	if (c == con2) {
		by_len += snprintf(by_log + by_len, sizeof(by_log) - by_len, "%s", t->cmd.name);
		for (int i = 1; i < c->argc && i < 4; i++)
			by_len += snprintf(by_log + by_len, sizeof(by_log) - by_len, " %s", c->argv[i]);
		by_len += snprintf(by_log + by_len, sizeof(by_log) - by_len, "\n");
		return PT_EXITED;
	}
	PT_BEGIN(&c->pt);
	/* capture what was dispatched, before anything else can touch the line buffer */
	if (nrec >= MAXREC)
		sim_discard("record table full");
	rec[nrec].idx = t->idx;
	rec[nrec].argc = c->argc;
	if (c->argc < 1 || c->argc > 4)
		sim_fail(NULL, "ARGS:argc", "command '%s' dispatched with argc=%d", t->cmd.name, c->argc);
	for (int i = 0; i < 4; i++) {
		const char *a = c->argv[i];
		const char *lo = c->scratch.buf, *hi = c->scratch.buf + sizeof(c->scratch.buf);
		if (a < lo || a >= hi || !memchr(a, 0, hi - a))
			sim_fail(NULL, "ARGV_ESCAPE",
				 "argv[%d] of command '%s' is not a NUL-terminated string inside the line buffer (offset %td)",
				 i, t->cmd.name, a - lo);
		snprintf(rec[nrec].argv[i], sizeof(rec[nrec].argv[i]), "%s", a);
	}
	nrec++;
	sim_evs("cmd", t->cmd.name);
	cmd_running = true;
	/* console.h: the scratch area is the command's to store state in once it has parsed its
	 * arguments.  Some commands do: the next line must still be computed from what was typed. */
	if (sim_chance(1, 3)) {
		uint32_t from = sim_choose(sizeof(c->scratch.buf)), n = 1 + sim_choose(sizeof(c->scratch.buf) - from);
		memset(c->scratch.u8 + from, 0x41 + (nrec & 15), n);
		sim_probe(P_CMD_DIRTIED_SCRATCH);
	}
	if (t->kind == K_YLD) {
		sim_probe(P_YIELDING_CMD);
		cmd_left = 1 + sim_choose(4);
		if (allow_long_yield && sim_chance(1, 30)) {
			/* a command may keep yielding for as long as it likes */
			cmd_left = 1001 + sim_choose(1500);
			sim_probe(P_LONG_YIELD);
		}
		for (; cmd_left > 0; cmd_left--)
			PT_YIELD();
	} else if ((t->kind == K_BLK || t->kind == K_SLP) && !use_fibre_timeout) {
		/* no scheduler: console_process / console_run resumes the command */
		for (cmd_left = 1 + sim_choose(3); cmd_left > 0; cmd_left--)
			PT_WAIT();
	} else if (t->kind == K_SLP || t->kind == K_BLK) {
		/* under the scheduler a blocked command needs a wake-up source: a timeout */
		sim_probe(P_SLEEPING_CMD);
		cmd_due = now + 1 + sim_choose(50);
		PT_WAIT_UNTIL(fibre_timeout(cmd_due));
	} else if (t->kind == K_FAIL) {
		sim_probe(P_FAILING_CMD);
		cmd_running = false;
		PT_FAIL();
	}
	cmd_running = false;
	PT_END();
}

/* ---- reference model: editor + tokeniser over the accepted character stream ---- */

enum { X_REC, X_WILD };
static struct {
	int type;
	int idx;
	bool judged;
	int argc;
	char argv[4][84];
} expect[MAXREC];
static int nexpect;
static int unknown_lo, unknown_hi;
static char mline[84];
static int mlen;

static int find_registered(const char *name)
{
	for (int i = 0; i < NCMDS; i++)
		if (cmds[i].registered && !strcmp(cmds[i].cmd.name, name))
			return i;
	return -1;
}

static bool is_ws(char ch) { return ch == ' ' || ch == '\t'; }

/* reference tokeniser; returns false if the line is outside the shapes the statement defines */
static bool ref_tokenise(const char *line, int *argc, char argv[4][84])
{
	int n = 0;
	size_t i = 0, len = strlen(line);
	memset(argv, 0, 4 * 84);
	if (!len || is_ws(line[0]) || line[0] == '"' || line[0] == '\'')
		return false;
	while (i < len) {
		while (i < len && is_ws(line[i]))
			i++;
		if (i >= len)
			break;
		if (n == 3) {
			/* the fourth argument takes the rest */
			if (line[i] == '"' || line[i] == '\'' || is_ws(line[len - 1]))
				return false;
			snprintf(argv[3], 84, "%s", line + i);
			bool more = false;
			for (size_t k = i; k < len; k++)
				if (is_ws(line[k]))
					more = true;
			sim_probe(more ? P_MORE_THAN_FOUR : P_FOUR_ARGS);
			n = 4;
			break;
		}
		if (line[i] == '"' || line[i] == '\'') {
			char q = line[i++];
			size_t s = i;
			while (i < len && line[i] != q)
				i++;
			if (i >= len || i == s)
				return false;	/* unterminated or empty quotes */
			if (i + 1 < len && !is_ws(line[i + 1]))
				return false;	/* text glued to the closing quote */
			memcpy(argv[n], line + s, i - s);
			n++;
			i++;
			sim_probe(P_QUOTED);
		} else {
			size_t s = i;
			while (i < len && !is_ws(line[i])) {
				if (line[i] == '"' || line[i] == '\'')
					return false;	/* quote inside a word */
				i++;
			}
			memcpy(argv[n], line + s, i - s);
			n++;
		}
	}
	*argc = n;
	return n >= 1;
}

static void model_line(void)
{
	mline[mlen] = 0;
	if (mlen == 0) {
		sim_probe(P_EMPTY_LINE);
		return;
	}
	if (nexpect >= MAXREC)
		sim_discard("expect table full");
	if (is_ws(mline[0]) || mline[0] == '"' || mline[0] == '\'') {
		/* the statement does not say which command such a line names */
		sim_probe(P_LEADING_SPACE_LINE);
		expect[nexpect++].type = X_WILD;
		unknown_hi++;
		return;
	}
	/* the first token: up to the first white space */
	char name[84];
	int k = 0;
	while (mline[k] && !is_ws(mline[k]))
		k++;
	memcpy(name, mline, k);
	name[k] = 0;
	int idx = find_registered(name);
	if (idx < 0) {
		if (!strcmp(name, "echo") || !strcmp(name, "help")) {
			sim_probe(P_BUILTIN);
		} else {
			sim_probe(P_UNKNOWN_LINE);
			unknown_lo++;
			unknown_hi++;
		}
		return;
	}
	expect[nexpect].type = X_REC;
	expect[nexpect].idx = idx;
	expect[nexpect].judged = ref_tokenise(mline, &expect[nexpect].argc, expect[nexpect].argv);
	if (expect[nexpect].judged)
		sim_probe(P_ARGS_JUDGED);
	nexpect++;
}

static void model_char(char ch)
{
	if (ch == '\n' || mlen >= 79) {
		if (mlen >= 79) {
			sim_probe(P_LINE_79);
			sim_fault(F_LINE_OVERFLOW);
		}
		model_line();
		mlen = 0;	/* a non-newline character arriving now is dropped by the code; the
				 * generator always follows it with a junk line so both readings agree */
	} else if (ch == '\b') {
		if (mlen > 0)
			mlen--;
		else
			sim_fault(F_BACKSPACE_EMPTY);
	} else if (ch == 3) {
		mlen = 0;
		sim_fault(F_CTRL_C);
	} else {
		mline[mlen++] = ch;
	}
}

/* compare what the commands saw with the expectation (wildcards absorb 0 or 1 record) */
static bool match_from(int e, int r)
{
	while (e < nexpect) {
		if (expect[e].type == X_WILD) {
			if (match_from(e + 1, r))
				return true;
			return r < nrec && match_from(e + 1, r + 1);
		}
		if (r >= nrec || rec[r].idx != expect[e].idx)
			return false;
		e++;
		r++;
	}
	return r == nrec;
}

static void compare_records(const char *when)
{
	if (sim_tracing()) {
		size_t ol;
		const char *o = sim_sink_text(&ol);
		sim_note("console output (%zu bytes): %.300s", ol, o);
		for (int i = 0; i < nrec; i++)
			sim_note("ran: %s argc=%d [%s|%s|%s|%s]", cmds[rec[i].idx].cmd.name, rec[i].argc, rec[i].argv[0], rec[i].argv[1], rec[i].argv[2], rec[i].argv[3]);
		for (int i = 0; i < nexpect; i++)
			sim_note("expected: %s", expect[i].type == X_WILD ? "(wildcard)" : cmds[expect[i].idx].cmd.name);
	}
	/* first: detailed diagnosis without wildcards in the way */
	int e = 0, r = 0;
	bool wild = false;
	for (int i = 0; i < nexpect; i++)
		wild |= expect[i].type == X_WILD;
	if (!wild) {
		for (; e < nexpect && r < nrec; e++, r++) {
			if (rec[r].idx != expect[e].idx)
				sim_fail(NULL, "DISPATCH", "%s: command number %d that ran was '%s', the line named '%s'",
					 when, r, cmds[rec[r].idx].cmd.name, cmds[expect[e].idx].cmd.name);
			if (!expect[e].judged)
				continue;
			if (rec[r].argc != expect[e].argc)
				sim_fail(NULL, "ARGS", "%s: '%s' ran with argc=%d, the line has %d argument(s) (argv[1]='%s')",
					 when, cmds[rec[r].idx].cmd.name, rec[r].argc, expect[e].argc, rec[r].argv[1]);
			for (int i = 0; i < 4; i++) {
				const char *want = i < expect[e].argc ? expect[e].argv[i] : "";
				if (strcmp(rec[r].argv[i], want))
					sim_fail(NULL, "ARGS", "%s: '%s' argv[%d]='%s', expected '%s'",
						 when, cmds[rec[r].idx].cmd.name, i, rec[r].argv[i], want);
			}
		}
		if (r < nrec)
			sim_fail(NULL, nrec > nexpect && e > 0 && rec[r].idx == rec[r - 1].idx ? "EVAL_REPEAT" : "DISPATCH",
				 "%s: %d command(s) ran but the input names only %d (extra: '%s')", when, nrec, nexpect,
				 cmds[rec[r].idx].cmd.name);
		if (e < nexpect)
			sim_fail(NULL, "DISPATCH", "%s: the input names %d command(s) but only %d ran (missing: '%s')",
				 when, nexpect, nrec, cmds[expect[e].idx].cmd.name);
		return;
	}
	if (!match_from(0, 0))
		sim_fail(NULL, "DISPATCH", "%s: the %d command(s) that ran do not match the %d line(s) of input", when, nrec, nexpect);
}

static void compare_output(void)
{
	size_t len;
	const char *out = sim_sink_text(&len);
	int n = 0;
	for (const char *p = out; (p = strstr(p, "Unknown/bad command")); p++)
		n++;
	if (n < unknown_lo || n > unknown_hi)
		sim_fail(NULL, "UNKNOWN_OUTPUT", "\"Unknown/bad command\" was printed %d time(s); the input has %d..%d non-empty unknown line(s)",
			 n, unknown_lo, unknown_hi);
}

/* ---- stream generator --------------------------------------------------------- */

static char stream[1024];
static int stream_len;

static void emit(char ch)
{
	if (stream_len < (int)sizeof(stream) - 1)
		stream[stream_len++] = ch;
}

static void emit_word(void)
{
	static const char alpha[] = "abcdefgxyz0123456789-_=+.,:;/!@$%^&*()[]{}<>?|~";
	int n = 1 + sim_choose(6);
	for (int i = 0; i < n; i++)
		emit(alpha[sim_choose(sizeof(alpha) - 1)]);
}

static void emit_sep(void)
{
	int n = 1 + (sim_choose(4) == 0);
	for (int i = 0; i < n; i++)
		emit(sim_choose(5) == 0 ? '\t' : ' ');
}

static void emit_name(void)
{
	uint32_t k = sim_choose(10);
	const char *nm;
	if (k < 6) {
		nm = names[sim_choose(NCMDS)];	/* registered or not */
		if (sim_choose(3) == 0 && n_registered)
			for (int tries = 0; tries < 8 && find_registered(nm) < 0; tries++)
				nm = names[sim_choose(NCMDS)];
	} else if (k == 6) {
		nm = "echo";
	} else if (k == 7) {
		nm = sim_choose(4) ? "nosuch" : "help";
	} else if (k == 8 && long_names) {
		/* the long names themselves, their common stem, and near misses */
		static const char *const nearly[] = { LONG_STEM "celsius", LONG_STEM "kelvin", LONG_STEM, LONG_STEM "celsiu",
						      LONG_STEM "kelvins", LONG_STEM "x" };
		nm = nearly[sim_choose(6)];
		sim_probe(P_LONG_NAME);
	} else if (k == 8) {
		nm = "ca";	/* prefix of a name */
	} else {
		nm = "capx";	/* name plus a letter */
	}
	for (const char *p = nm; *p; p++) {
		emit(*p);
		if (sim_chance(1, 12)) {	/* typo corrected with a backspace */
			emit('q');
			emit('\b');
		}
	}
}

static void gen_line(void)
{
	uint32_t kind = sim_choose(12);
	int start = stream_len;
	if (kind == 0) {
		emit('\n');	/* empty line */
		return;
	}
	if (kind == 1) {	/* messy line, judged only for safety and containment */
		static const char lead[] = " \t\"'";
		static const char any[] = "ab \t\"'xy\b c";
		emit(lead[sim_choose(4)]);
		int n = sim_choose(30);
		for (int i = 0; i < n; i++)
			emit(any[sim_choose(sizeof(any) - 1)]);
		emit('\n');
		return;
	}
	if (kind == 2) {	/* abandoned with Ctrl-C, then a proper line */
		emit_word();
		emit_sep();
		emit_word();
		emit(3);
	}
	if (kind == 3) {	/* backspaces beyond the start of the line */
		emit('z');
		for (int i = 0; i < 3; i++)
			emit('\b');
	}
	emit_name();
	int nargs = sim_choose(7);
	for (int a = 0; a < nargs; a++) {
		emit_sep();
		uint32_t q = sim_choose(6);
		if (q == 0 || q == 1) {
			char qc = q ? '"' : '\'';
			emit(qc);
			emit_word();
			if (sim_choose(2)) {
				emit(' ');
				emit_word();
			}
			if (sim_choose(4) == 0)
				emit(q ? '\'' : '"');	/* the other quote is literal inside */
			if (sim_choose(16))
				emit(qc);		/* (rarely left unterminated) */
		} else {
			emit_word();
			if (sim_chance(1, 20))
				emit('"');		/* quote glued to a word */
		}
	}
	if (sim_chance(1, 10))
		emit_sep();	/* trailing white space */
	if (kind >= 10) {
		/* pad the line to 76..82 characters so it reaches the 79-character limit */
		int cur = 0;
		for (int i = start; i < stream_len; i++)
			cur += stream[i] == '\b' ? -1 : stream[i] == 3 ? -cur : 1;
		int target = 76 + sim_choose(7);
		if (cur < target - 2) {
			emit(' ');
			cur++;
			while (cur < target) {
				emit("pqrs"[cur & 3]);
				cur++;
			}
		}
		if (cur >= 79) {
			/* the line completes by filling; whatever follows is junk up to a newline */
			emit('#');
			emit('#');
			emit_word();
		}
	}
	emit('\n');
}

/* ---- set-up shared by all paths -------------------------------------------------- */

static void setup_commands(void)
{
	long_names = sim_chance(1, 4);
	static const char *const special[] = { "cap", "yld", "blk", "slp", "fail" };
	static const int kinds[] = { K_CAP, K_YLD, K_BLK, K_SLP, K_FAIL };
	/* names sorting before, between and after the special ones (and the built-ins) */
	static const char *const fill[] = { "aaa", "b1", "b2", "cz", "d0", "ea", "ex", "f0", "gg", "h1",
					    "hz", "i9", "j", "k", "l", "m", "n", "o", "p", "q9", "r", "s",
					    "sz", "t", "u", "v", "w", "x", "y", "zz", "zzz" };
	for (int i = 0; i < NCMDS; i++) {
		const char *nm = i < 5 ? special[i] : fill[i - 5];
		if (long_names && i == 20)
			nm = LONG_STEM "celsius";
		if (long_names && i == 21)
			nm = LONG_STEM "kelvin";
		snprintf(names[i], sizeof(names[i]), "%s", nm);
		cmds[i].cmd.name = names[i];
		cmds[i].cmd.fn = cmd_fn;
		cmds[i].kind = i < 5 ? kinds[i] : K_FILL;
		cmds[i].idx = i;
		cmds[i].registered = false;
	}
	n_registered = 0;
	/* register a tape-chosen number of commands in a tape-chosen order */
	uint32_t want = sim_choose(4) == 0 ? 30 + sim_choose(6) : sim_choose(12);
	int order[NCMDS];
	for (int i = 0; i < NCMDS; i++)
		order[i] = i;
	for (int i = NCMDS - 1; i > 0; i--) {
		int j = sim_choose(i + 1);
		int t = order[i];
		order[i] = order[j];
		order[j] = t;
	}
	if (want && sim_choose(2)) {	/* make sure the interesting ones are usually present */
		for (int s = 0; s < 5; s++)
			for (int i = 0; i < NCMDS; i++)
				if (order[i] == s) {
					order[i] = order[s];
					order[s] = s;
				}
	}
	for (uint32_t i = 0; i < want && i < NCMDS; i++) {
		tcmd_t *t = &cmds[order[i]];
		sim_budget(1000000);
		int r = console_register(&t->cmd);
		bool expect_ok = n_registered < 29;	/* 32 slots: echo, help and the sentinel are built in */
		sim_ev("register", order[i], r, 0);
		if ((r == 0) != expect_ok || (r != 0 && r != -1))
			sim_fail(NULL, "REGISTER", "console_register of command number %d returned %d (table holds %d of 29 user commands)",
				 n_registered + 1, r, n_registered);
		if (r == 0) {
			t->registered = true;
			n_registered++;
		} else {
			sim_fault(F_TABLE_FULL);
			sim_probe(P_REGISTER_REFUSED);
		}
	}
}

static void reset_model(void)
{
	nrec = nexpect = 0;
	unknown_lo = unknown_hi = 0;
	mlen = 0;
	stream_len = 0;
	cmd_running = false;
	cmd_left = 0;
}

static void gen_stream(int nlines)
{
	for (int i = 0; i < nlines; i++)
		gen_line();
	/* after a refused registration every earlier command must still be found: name them all */
	if (n_registered >= 29 && sim_choose(2)) {
		for (int i = 0; i < NCMDS && stream_len < 900; i++)
			if (cmds[i].kind == K_FILL || cmds[i].kind == K_CAP) {
				for (const char *p = names[i]; *p; p++)
					emit(*p);
				emit('\n');
			}
	}
	stream[stream_len] = 0;
}

#ifndef SIM_FLAVOUR_SIM
/* ====================== asan flavour: console_process and console_eval ============ */

static bool ring_full_producer_side(void)
{
	unsigned w = atomic_load(&con->ring.writei), r = atomic_load(&con->ring.readi);
	return (w + 1) % con->ring.buf_len == r;
}

static void path_process(void)
{
	sim_probe(P_PATH_PROCESS);
	use_fibre_timeout = false;
	for (int i = 0; i < stream_len; i++) {
		char ch = stream[i];
		if (ring_full_producer_side())
			sim_fault(F_RING_OVERFLOW);	/* dropped: the model never sees it */
		else
			model_char(ch);
		if (cmd_running)
			sim_probe(P_INPUT_WHILE_CMD_RUNS);
		sim_budget(2000000);
		console_process(con, ch);
		sim_ops(1);
		sim_check_sanitizer();
	}
	/* let a blocked command finish and the ring drain */
	for (int k = 0; k < 64; k++) {
		sim_budget(2000000);
		(void)console_run(con);
	}
	compare_records("after console_process of the whole stream");
	compare_output();
}

/* the injecting fibre */
static struct {
	fibre_t fibre;
	pt_t pt;
	const char *str;
	bool done;
	uint32_t resumptions;
} inj;

static int inject_fibre(fibre_t *f)
{
	PT_BEGIN_FIBRE(f);
	inj.resumptions = 0;
	PT_SPAWN(&inj.pt, (inj.resumptions++, console_eval(&inj.pt, con, inj.str)));
	inj.done = true;
	PT_END();
}

/* the same, for the second console */
static struct {
	fibre_t fibre;
	pt_t pt;
	char *str;		/* exact-size heap block: reading past the terminator faults */
	bool active, done;
} inj2;

static int inject2_fibre(fibre_t *f)
{
	PT_BEGIN_FIBRE(f);
	PT_SPAWN(&inj2.pt, console_eval(&inj2.pt, con2, inj2.str));
	inj2.done = true;
	PT_END();
}

/* 1-4 simple lines naming a registered run-to-completion command; the text is its own expectation */
static bool start_second_console(void)
{
	int usable[NCMDS], nu = 0;
	for (int i = 0; i < NCMDS; i++)
		if (cmds[i].registered && (cmds[i].kind == K_FILL || cmds[i].kind == K_CAP) && strlen(names[i]) <= 3)
			usable[nu++] = i;
	if (!nu)
		return false;
	static FILE *null_out;
	if (!null_out)
		null_out = fopen("/dev/null", "w");
	con2 = sim_alloc(sizeof(console_t));
	sim_budget(1000000);
	console_init(con2, null_out);
	int n = 0, lines = 1 + sim_choose(4);
	char text[400];
	for (int l = 0; l < lines; l++) {
		n += snprintf(text + n, sizeof(text) - n, "%s", names[usable[sim_choose(nu)]]);
		int words = sim_choose(4);
		for (int w = 0; w < words; w++) {
			int wl = 1 + sim_choose(sim_choose(3) ? 6 : 24);
			text[n++] = ' ';
			for (int k = 0; k < wl; k++)
				text[n++] = 'a' + (l * 7 + w * 3 + k) % 26;
		}
		text[n++] = '\n';
		text[n] = 0;
	}
	inj2.str = sim_alloc(n + 1);
	memcpy(inj2.str, text, n + 1);
	by_len = 0;
	by_log[0] = 0;
	inj2.done = false;
	inj2.active = true;
	fibre_init(&inj2.fibre, inject2_fibre);
	fibre_run(&inj2.fibre);
	sim_probe(P_SECOND_CONSOLE);
	sim_evs("second_console", inj2.str);
	return true;
}

static void path_eval(void)
{
	sim_probe(P_PATH_EVAL);
	use_fibre_timeout = true;
	allow_long_yield = true;
	/* split the stream into 1..3 injected strings at line boundaries */
	int pos = 0;
	inj2.active = false;
	con2 = NULL;
	bool want_second = sim_chance(1, 3);
	while (pos < stream_len) {
		int end = pos;
		int lines = 1 + sim_choose(4), seen = 0;
		while (end < stream_len && seen < lines)
			if (stream[end++] == '\n')
				seen++;
		char *piece = sim_alloc(end - pos + 1);	/* exact size: reading past the terminator faults */
		memcpy(piece, stream + pos, end - pos);
		piece[end - pos] = 0;
		/* console_eval takes a C string: characters it cannot carry end the piece */
		for (int i = 0; i < end - pos; i++)
			model_char(piece[i]);
		if (end - pos > 15)
			sim_probe(P_EVAL_LONGER_THAN_RING);
		if (seen > 1)
			sim_probe(P_EVAL_MULTI_LINE);
		inj.str = piece;
		inj.done = false;
		fibre_init(&inj.fibre, inject_fibre);
		fibre_run(&inj.fibre);
		/* sometimes another console instance is fed at the same time, before or after this one starts */
		if (want_second && !inj2.active && (sim_choose(2) || end == stream_len))
			start_second_console();
		int passes = 0;
		int budget = 40 * (end - pos) + 400 + (inj2.active ? 40 * 400 : 0) + 3000 * seen;
		while (passes++ < budget) {
			sim_budget(4000000);
			uint32_t wake = fibre_scheduler_next(now);
			sim_check_sanitizer();
			if (wake != now) {
				if (inj.done && !cmd_running && wake == now + FIBRE_UNBOUNDED_SLEEP &&
				    (!inj2.active || inj2.done))
					break;
				uint32_t adv = wake - now;
				if (adv > 1000)
					adv = 1000;
				now += adv;
				sim_clock = now;
				sim_ticks(adv);
			} else {
				/* time passes while fibres keep the processor busy, too */
				uint32_t adv = sim_choose(3);
				now += adv;
				sim_clock = now;
				sim_ticks(adv);
			}
		}
		sim_ops(1);
		sim_ev("eval", end - pos, inj.done, passes);
		if (!inj.done)
			sim_fail(NULL, "EVAL_STUCK", "console_eval of a %d-character string (%d line(s)) had not completed after %d scheduler passes",
				 end - pos, seen, passes - 1);
		if (inj2.active) {
			if (!inj2.done)
				sim_fail(NULL, "EVAL_STUCK:second_console", "console_eval on a second console instance had not completed after %d scheduler passes", passes - 1);
			if (strcmp(by_log, inj2.str))
				sim_fail(NULL, "SECOND_CONSOLE", "a second console instance was given \"%.200s\" while the first was evaluating; its commands saw \"%.200s\"",
					 inj2.str, by_log);
			inj2.active = false;
			want_second = false;
		}
		pos = end;
	}
	compare_records("after console_eval of the whole stream");
	compare_output();
}

static void run(void)
{
	reset_model();
	con2 = NULL;
	allow_long_yield = false;
	now = sim_choose(2) ? 0xfffffff0u : 1000;
	sim_clock = now;
	setup_commands();
	con = sim_alloc(sizeof(console_t));	/* exact size: writes outside the console fault */
	sim_budget(1000000);
	console_init(con, sim_sink_open());
	uint32_t path = sim_choose(2);
	gen_stream(1 + sim_choose(8));
	sim_evs("stream", stream);
	if (path == 0) {
		/* console_init made the fibre runnable; this path drives console_run directly */
		(void)fibre_kill(&con->fibre);
		path_process();
	} else {
		path_eval();
	}
}

#define FLAVOUR "asan"
#else
/* ====================== sim flavour: console_putchar from interrupts / a thread ===== */

enum { M_IRQ, M_THR };
static int mode;
static int feed_pos;
static bool feeder_done;

static bool ring_full_producer_side(void)
{
	/* read by the (uninstrumented) harness: not an event of the simulated program */
	unsigned w = atomic_load(&con->ring.writei), r = atomic_load(&con->ring.readi);
	return (w + 1) % con->ring.buf_len == r;
}

/*
 * The environment keeps within the system's sizing assumption: it never overflows the 8-deep
 * wake-up queue (console_putchar cannot report a refused wake-up; overflow is the library's
 * "tainted" error state and belongs to C06).  It does fill the queue exactly.  Occupancy is
 * followed without naming any symbol: accepted requests minus the main loop's RMW operations
 * on the address that a request's first RMW (the free-counter decrement) targets.
 */
static uintptr_t wq_counter_addr;
static uint32_t wq_accepted, wq_main_claims, wq_inflight;	/* inflight: calls that may already hold a slot */
static int mainloop_ctx_id;

static uint32_t wq_occupancy(void)
{
	if (!wq_counter_addr)
		return wq_accepted;	/* not learnt yet: nothing was released as far as we know */
	/* the main loop's own claims (characters delivered from the main context) hit the same
	 * counter from the same context: they are not releases */
	uint32_t released = simrt_watch_count(mainloop_ctx_id, 0) - wq_main_claims;
	uint32_t held = wq_accepted + wq_inflight;	/* a call interrupted mid-way may already own a slot */
	return released >= held ? 0 : held - released;
}

static bool feed_one(void)
{
	if (wq_occupancy() >= 8) {
		if (mode != M_THR)
			return false;	/* an interrupt handler cannot wait: deliver later */
		while (wq_occupancy() >= 8)
			simrt_spin_hint();
	}
	char ch = stream[feed_pos++];
	wq_inflight++;
	if (wq_counter_addr && simrt_self() == mainloop_ctx_id && simrt_irq_depth() == 0)
		wq_main_claims++;
	if (mode == M_THR) {
		/* a thread waits for room, so nothing is dropped */
		while (ring_full_producer_side())
			simrt_spin_hint();
		model_char(ch);
	} else if (ring_full_producer_side()) {
		sim_fault(F_RING_OVERFLOW);	/* the consumer is frozen below us: certainly dropped */
	} else {
		model_char(ch);
	}
	if (cmd_running)
		sim_probe(P_INPUT_WHILE_CMD_RUNS);
	if (!wq_counter_addr)
		simrt_mark_rmw();
	console_putchar(con, ch);
	wq_inflight--;
	wq_accepted++;	/* room was ensured, so the console's own request was accepted */
	/* ringbuf_put has no RMW: the first one is the wake-up queue's free-counter decrement */
	if (!wq_counter_addr && (wq_counter_addr = simrt_first_rmw()))
		simrt_watch_addr(wq_counter_addr);
	sim_ops(1);
	return true;
}

/* other interrupt sources share the 8-deep wake-up queue with the console (a timer tick, say) */
static fibre_t *ticker[2];
static uint32_t ticker_runs;
static bool finale_done, want_finale;

static int ticker_fibre(fibre_t *f)
{
	PT_BEGIN_FIBRE(f);
	for (;;) {
		ticker_runs++;
		PT_WAIT();
	}
	PT_END();
}

static void tick_burst(void)
{
	uint32_t n = sim_choose(3) == 0 ? 5 + sim_choose(5) : sim_choose(3);
	for (uint32_t i = 0; i < n; i++) {
		if (wq_occupancy() >= 8)
			return;
		if (!wq_counter_addr)
			simrt_mark_rmw();
		wq_inflight++;
		bool ok = fibre_run_atomic(ticker[sim_choose(2)]);
		wq_inflight--;
		if (ok)
			wq_accepted++;
		if (!wq_counter_addr && (wq_counter_addr = simrt_first_rmw()))
			simrt_watch_addr(wq_counter_addr);
	}
}

static int in_feed;	/* the (single) console producer is inside its delivery code */

static void irq_handler(int depth)
{
	sim_fault(F_IRQ);
	if (depth == 1 && !in_feed && feed_pos < stream_len && stream_len - feed_pos <= 3 && sim_choose(2)) {
		/* the end of the input is about to arrive: another source's handler is running when it
		 * does (the following interrupts come densely and nest inside this one) */
		simrt_irq_densify(1 + sim_choose(4));
		tick_burst();
	} else if (sim_choose(2))
		tick_burst();
	/* interrupts nest to depth 2, but the ring has ONE producer: a handler that interrupted
	 * the UART handler itself is some other source (a tick) and delivers no characters */
	if (in_feed)
		return;
	if (depth > 1)
		sim_probe(P_CONSOLE_IRQ_NESTED_IN_TICK);
	in_feed++;
	uint32_t n = 1 + sim_choose(sim_choose(4) ? 3 : 20);
	/* a UART interrupt that preempts another source's handler sometimes brings the end of the
	 * input: the last newline's wake-up is then requested from inside somebody else's request */
	if (depth > 1 && stream_len - feed_pos <= 6 && sim_choose(2))
		n = stream_len - feed_pos;
	bool final_alone = false;
	for (uint32_t i = 0; i < n && feed_pos < stream_len; i++) {
		if (feed_pos == stream_len - 1 && want_finale) {
			/* hold the last newline back until the wake-up queue is empty, so that its
			 * request will be the only one that names the console */
			if (wq_occupancy() != 0 || i != 0)
				break;
			final_alone = true;
		}
		if (!feed_one())
			break;
	}
	if (final_alone && feed_pos >= stream_len && !finale_done) {
		/* the last newline is in: other interrupt sources fill the wake-up queue exactly and
		 * keep firing while the main loop drains it (the console's request is the only one
		 * that names the console) */
		finale_done = true;
		while (wq_occupancy() < 8) {
			wq_inflight++;
			bool ok = fibre_run_atomic(ticker[sim_choose(2)]);
			wq_inflight--;
			if (!ok)
				break;
			wq_accepted++;
		}
		simrt_irq_densify(1 + sim_choose(6));
		sim_probe(P_FINALE_QUEUE_EXACTLY_FULL);
	}
	in_feed--;
}

static void feeder_ctx(void *arg)
{
	(void)arg;
	while (feed_pos < stream_len) {
		if (sim_chance(1, 6))
			tick_burst();
		feed_one();
		simrt_point();
	}
	feeder_done = true;
}

static void main_loop(void)
{
	mainloop_ctx_id = simrt_self();
	/* a thread-mode main loop keeps going for as long as the feeder has characters left */
	for (int it = 0; it < 6000 || (mode == M_THR && !feeder_done && it < 60000); it++) {
		uint32_t sw0 = simrt_switches();
		uint32_t wake = fibre_scheduler_next(now);
		simrt_point();
		bool all_fed = mode == M_THR ? feeder_done : feed_pos >= stream_len;
		if (wake != now && simrt_switches() == sw0) {
			if (all_fed && !cmd_running && wake == now + FIBRE_UNBOUNDED_SLEEP)
				break;
			uint32_t adv = wake - now;
			if (adv > 200)
				adv = 1 + sim_choose(200);
			now += adv;
			sim_clock = now;
			sim_ticks(adv);
		} else if (wake == now) {
			now += 1;	/* time passes while fibres keep the processor busy, too */
			sim_clock = now;
			sim_ticks(1);
		}
		if (mode == M_THR && !all_fed && wake != now)
			simrt_spin_hint();
	}
}

static void mainloop_ctx(void *arg)
{
	(void)arg;
	main_loop();
}

static void run(void)
{
	bool races = sim_prop_is("C07");
	reset_model();
	con2 = NULL;
	allow_long_yield = false;
	mode = races ? M_THR : sim_choose(3) ? M_IRQ : M_THR;
	now = sim_choose(2) ? 0xfffffff0u : 1000;
	sim_clock = now;
	use_fibre_timeout = true;
	feed_pos = 0;
	feeder_done = false;
	sim_budget(60000000);
	setup_commands();
	con = sim_alloc_guarded(sizeof(console_t), 64, 0xa9);
	simrt_region_add(con, sizeof(console_t), SIMRT_SHARED, "console");
	simrt_region_add(cmds, sizeof(cmds), SIMRT_PRIVATE, "command-descriptors");
	simrt_bounds(true);
	simrt_libdata_points(mode == M_IRQ);	/* interrupts can land between any two library accesses to its own data */
	console_init(con, sim_sink_open());
	for (int i = 0; i < 2; i++) {
		ticker[i] = sim_alloc_guarded(sizeof(fibre_t), 16, 0x5e);
		simrt_region_add(ticker[i], sizeof(fibre_t), SIMRT_PRIVATE, "ticker-fibre");
		fibre_init(ticker[i], ticker_fibre);
	}
	ticker_runs = 0;
	finale_done = false;
	want_finale = false;
	in_feed = 0;
	wq_counter_addr = 0;
	wq_accepted = wq_main_claims = wq_inflight = 0;
	mainloop_ctx_id = 0;
	gen_stream(1 + sim_choose(6));
	sim_evs("stream", stream);
	int strat = sim_choose(SIMRT_NSTRAT);
	uint32_t sparam = strat == SIMRT_STRAT_PCT ? 1 + sim_choose(4) :
			  strat == SIMRT_STRAT_KPREEMPT ? 1 + sim_choose(3) : 1 + sim_choose(4);

	sim_seg();	/* the schedule */
	if (mode == M_IRQ) {
		sim_probe(P_PATH_PUTCHAR_IRQ);
		want_finale = sim_choose(2);
		simrt_mode(SIMRT_IRQ);
		simrt_irq_handler(irq_handler, 2);
		/* enough interrupts to deliver the stream; gaps from back-to-back to far apart */
		uint32_t n = 32;
		simrt_irq_plan(n, 1 + sim_choose(sim_choose(2) ? 40 : 400));
		main_loop();
		simrt_irq_mask(true);
		/* whatever the interrupts did not deliver arrives now, slowly */
		while (feed_pos < stream_len) {
			feed_one();
			for (int k = 0; k < 4; k++)
				(void)fibre_scheduler_next(now);
		}
		main_loop();
	} else {
		sim_probe(P_PATH_PUTCHAR_THR);
		simrt_mode(SIMRT_THR);
		simrt_races(races);
		simrt_strategy(strat, sparam);
		simrt_spawn(mainloop_ctx, NULL);
		simrt_spawn(feeder_ctx, NULL);
		simrt_run_all();
		if (simrt_switches() > 2)
			sim_fault(F_PREEMPT);
		simrt_mode(SIMRT_SEQ);
		main_loop();
	}
	simrt_mode(SIMRT_SEQ);
	compare_records("after console_putchar delivery of the whole stream");
	compare_output();
	sim_check_guards();
}

#define FLAVOUR "sim"
#endif

const sim_harness_t sim_harness = {
	.name = "h_console",
	.flavour = FLAVOUR,
	.run = run,
	.fault_names = fault_names,
	.probe_names = probe_names,
	.min_ops = 4,
	.rule = "one case = a tape-chosen set and order of console_register calls (0-35 commands: capturing, "
		"yielding, blocking, sleeping, failing, fillers), one generated character stream (clean and "
		"messy lines, quotes, backspace, Ctrl-C, lines padded to 76-82 characters) and one delivery "
		"path (console_process; console_eval from a second fibre under the real scheduler; "
		"console_putchar from interrupts or a thread with the producer-side view of ring overflow); "
		"non-trivial = at least 4 deliveries and at least one fault or probe; distinct = distinct hash "
		"of the stream and command event sequence",
	.real = "librfn/console.c, ringbuf.c, fibre.c, list.c, messageq.c, protothreads.h",
	.stub = "console_hwinit (empty; posix/console_posix.c starts a stdin thread), output FILE* (simulator sink), time_now, main loop",
};

int main(int argc, char **argv)
{
	return sim_main(argc, argv);
}
