/*
 * h_ring - C05 (and the ring part of C07): one producer and one consumer on
 * the lock-free ring buffer under every interleaving the simulator can reach.
 *
 * Flavour: sim (librfn compiled with TSan instrumentation, linked against
 * simrt.c).  Scheduling points: every atomic operation in ringbuf.c and every
 * plain access to the ring storage and descriptor.
 *
 * Modes: thr (producer and consumer are free-running contexts), irq with the
 * producer as the interrupt handler, irq with the consumer as the handler.
 */
#include "sim.h"
#include "simrt.h"

#include <string.h>
#include <librfn/ringbuf.h>

enum { F_PREEMPT, F_IRQ, F_RING_FULL, F_RING_EMPTY, F_STALL };
static const char *const fault_names[] = { "thread_preempt", "irq_inject", "put_refused_full",
					   "get_refused_empty", "stall", NULL };
enum { P_WRAPPED, P_FULL_WHILE_GET_IN_FLIGHT, P_EMPTY_WHILE_PUT_IN_FLIGHT, P_PUTCHAR_SPUN,
       P_BIG_RING, P_LEN2, P_IRQ_IN_PUT, P_IRQ_IN_GET, P_MODE_THR, P_MODE_IRQ_PROD, P_MODE_IRQ_CONS,
       P_HIGH_BYTE, P_OVERLAP, P_HUGE_RING, P_LONG_LIVED, P_SECOND_RING_PUT, P_INIT_EXPRESSIONS };
static const char *const probe_names[] = {
	"index_wrapped", "put_refused_while_get_in_flight", "get_empty_while_put_in_flight",
	"putchar_had_to_spin", "ring_of_64_or_more", "ring_of_length_2", "interrupt_inside_put",
	"interrupt_inside_get", "mode_threads", "mode_irq_producer", "mode_irq_consumer",
	"byte_value_128_or_more", "put_and_get_overlapped", "ring_longer_than_65534_bytes",
	"more_than_65534_bytes_through_one_ring", "byte_put_into_a_second_ring",
	"static_initialiser_given_expression_arguments", NULL };

#define MAXOPS 96

static ringbuf_t *rb;
static uint8_t *store;
static uint32_t buf_len;

/* the history as seen from outside */
static uint8_t put_val[4 * MAXOPS + 8192 + 300000];
static uint32_t n_put_ok;		/* successful puts returned            */
static uint32_t n_put_inv_ok;		/* puts invoked and not (yet) refused  */
static uint32_t n_get_ok;		/* successful gets returned            */
static bool put_in_flight, get_in_flight;

typedef struct { uint8_t kind, val; } pop_t;	/* kind: 0 put, 1 putchar */
static pop_t pops[MAXOPS];
static uint8_t cops[2 * MAXOPS];		/* 0 get, 1 empty */
static uint32_t npops, ncops, pnext, cnext;
static int mode;

static void do_put(const pop_t *o)
{
	uint32_t gets_at_invoke = n_get_ok;
	bool overlapped = get_in_flight;
	put_in_flight = true;
	n_put_inv_ok++;
	sim_ev("put.inv", o->val, o->kind, 0);
	bool ok;
	if (o->kind == 1) {
		uint64_t p0 = simrt_points();
		ringbuf_putchar(rb, (char)o->val);
		ok = true;
		if (simrt_points() - p0 > 12)
			sim_probe(P_PUTCHAR_SPUN);
	} else {
		ok = ringbuf_put(rb, o->val);
	}
	put_in_flight = false;
	if (overlapped || get_in_flight)
		sim_probe(P_OVERLAP);
	if (ok) {
		put_val[n_put_ok++] = o->val;
		if (o->val >= 128)
			sim_probe(P_HIGH_BYTE);
	} else {
		n_put_inv_ok--;
		sim_fault(F_RING_FULL);
		if (overlapped || get_in_flight)
			sim_probe(P_FULL_WHILE_GET_IN_FLIGHT);
		/* legitimate only if the ring can have held buf_len-1 unread bytes at some
		 * instant of the call: the occupancy is highest at the start of the call */
		uint32_t max_occ = n_put_ok - gets_at_invoke;
		if (max_occ < buf_len - 1)
			sim_fail(NULL, "SPURIOUS_FULL",
				 "ringbuf_put refused although at most %u of %u usable bytes were unread at any instant of the call",
				 max_occ, buf_len - 1);
	}
	sim_ev("put.ret", o->val, ok, 0);
	sim_ops(1);
}

static void do_get(bool only_empty)
{
	uint32_t puts_at_invoke = n_put_ok;	/* puts that had returned when this call started */
	bool overlapped = put_in_flight;
	get_in_flight = true;
	sim_ev(only_empty ? "empty.inv" : "get.inv", 0, 0, 0);
	int d = 0;
	bool e = false;
	if (only_empty)
		e = ringbuf_empty(rb);
	else
		d = ringbuf_get(rb);
	get_in_flight = false;
	if (overlapped || put_in_flight)
		sim_probe(P_OVERLAP);
	bool said_empty = only_empty ? e : d == -1;
	if (said_empty) {
		sim_fault(F_RING_EMPTY);
		if (overlapped || put_in_flight)
			sim_probe(P_EMPTY_WHILE_PUT_IN_FLIGHT);
		/* the occupancy is lowest at the start of the call */
		if (puts_at_invoke > n_get_ok)
			sim_fail(NULL, "SPURIOUS_EMPTY",
				 "%s reported an empty ring although %u byte(s) were unread during the whole call",
				 only_empty ? "ringbuf_empty" : "ringbuf_get", puts_at_invoke - n_get_ok);
	} else if (!only_empty) {
		if (d < 0 || d > 255)
			sim_fail(NULL, "VALUE", "ringbuf_get returned %d, not an unsigned byte or -1", d);
		/* the k-th successful get must deliver the k-th successful put; the put may still be
		 * in flight (its store is done but the call has not returned yet) */
		uint8_t want;
		if (n_get_ok < n_put_ok)
			want = put_val[n_get_ok];
		else if (put_in_flight && n_get_ok == n_put_ok && pnext > 0)
			want = pops[pnext - 1].val;
		else
			sim_fail(NULL, "FIFO:phantom", "ringbuf_get returned %d but every byte put so far has already been delivered", d);
		if (d != want)
			sim_fail(NULL, d == (int8_t)want && d != want ? "VALUE" : "FIFO",
				 "successful get number %u returned %d, the matching put wrote %u", n_get_ok, d, want);
		n_get_ok++;
	}
	sim_ev(only_empty ? "empty.ret" : "get.ret", only_empty ? e : d, 0, 0);
	sim_ops(1);
}

static bool producer_done, keep_draining;

/* a second, unrelated ring (its descriptor a chosen distance from the first): whoever is not
 * the producer of the first ring is the only producer of this one; it is drained at the end */
static ringbuf_t *rb2;
static uint8_t *store2;
static uint32_t b_put;
static bool two_rings;
#define B_LEN 64

static void other_ring_put(void)
{
	if (!two_rings || b_put >= B_LEN - 1)
		return;
	sim_probe(P_SECOND_RING_PUT);
	if (!ringbuf_put(rb2, (uint8_t)(b_put * 7 + 3)))
		sim_fail(NULL, "SPURIOUS_FULL:second_ring",
			 "ringbuf_put on a second, unrelated ring of %u bytes was refused with %u bytes in it", B_LEN, b_put);
	b_put++;
}

static void producer(void *arg)
{
	(void)arg;
	while (pnext < npops) {
		const pop_t *o = &pops[pnext++];
		do_put(o);
	}
	producer_done = true;
}

static void consumer(void *arg)
{
	(void)arg;
	while (cnext < ncops) {
		do_get(cops[cnext++]);
		if (mode == 1 && sim_choose(2))
			other_ring_put();	/* this context is the producer of the other ring */
	}
	/* a spinning ringbuf_putchar needs a consumer that keeps consuming */
	while (keep_draining && !producer_done) {
		do_get(false);
		simrt_spin_hint();
	}
}

static void irq_handler(int depth)
{
	(void)depth;
	sim_fault(F_IRQ);
	if (mode == 1) {		/* producer is the interrupt */
		if (get_in_flight)
			sim_probe(P_IRQ_IN_GET);
		uint32_t n = 1 + sim_choose(3);
		for (uint32_t i = 0; i < n && pnext < npops; i++) {
			pop_t o = pops[pnext++];
			o.kind = 0;	/* never spin in a handler that preempts the consumer */
			do_put(&o);
		}
	} else {			/* consumer is the interrupt */
		if (put_in_flight)
			sim_probe(P_IRQ_IN_PUT);
		uint32_t n = 1 + sim_choose(3);
		for (uint32_t i = 0; i < n && cnext < ncops; i++)
			do_get(cops[cnext++]);
		if (sim_choose(2))
			other_ring_put();	/* the interrupt is the producer of the other ring */
	}
}

static void run(void)
{
	bool races = sim_prop_is("C07");
	mode = races ? 0 : sim_choose(3);	/* 0 thr, 1 irq producer, 2 irq consumer */
	uint32_t r = sim_choose(20);
	buf_len = r < 16 ? 2 + r : r == 16 ? 64 : r == 17 ? 255 : r == 18 ? 256 : 4096;
	uint32_t prefill = 0;
	if (sim_chance(1, 600)) {
		/* "every buffer length": indices are wider than 16 bits */
		static const uint32_t huge[] = { 65535, 65536, 65537, 70000, 131072 };
		buf_len = huge[sim_choose(5)];
		/* fill it (sequentially) to just below capacity, or to just below 2^16 */
		prefill = sim_choose(3) == 0 ? 0 : sim_choose(2) ? buf_len - 1 - sim_choose(3) : 65534 + sim_choose(3);
		if (prefill > buf_len - 1)
			prefill = buf_len - 1;
		sim_probe(P_HUGE_RING);
	}
	if (buf_len == 2) sim_probe(P_LEN2);
	if (buf_len >= 64) sim_probe(P_BIG_RING);
	uint32_t prerotate = sim_choose(2 * (buf_len > 40 ? 40 : buf_len) + 1);
	if (buf_len >= 64 && sim_choose(2))
		prerotate = buf_len - 1 - sim_choose(4);	/* next to the wrap */
	if (sim_chance(1, 500)) {
		/* a long-lived ring: more bytes through it than a 16-bit (or 17-bit) counter can count */
		static const uint32_t lives[] = { 65535, 65536, 65537, 70000, 131073, 140000 };
		prerotate = lives[sim_choose(6)] + sim_choose(buf_len);
		sim_probe(P_LONG_LIVED);
	}
	if (prerotate + prefill > 280000)
		prerotate = sim_choose(80);
	npops = 1 + sim_choose(MAXOPS - 1);
	ncops = sim_choose(3) ? npops + sim_choose(npops + 1) : sim_choose(2 * MAXOPS);
	if (ncops > 2 * MAXOPS)
		ncops = 2 * MAXOPS;
	int strat = sim_choose(SIMRT_NSTRAT);
	uint32_t sparam = strat == SIMRT_STRAT_PCT ? 1 + sim_choose(4) :
			  strat == SIMRT_STRAT_KPREEMPT ? 1 + sim_choose(3) : 1 + sim_choose(4);
	bool spin_ok = mode == 0 && sim_choose(3) == 0;
	/* the ring code has no business with the time; if it ever looks, the clock may be anywhere,
	 * including the last second before its 32-bit wrap */
	static const uint32_t clocks[] = { 0, 1000000, 0xfff0bdc0u, 0xfffffff0u, 0xffffffffu, 0x7fffff00u };
	sim_clock = clocks[sim_choose(6)] + sim_choose(1000);
	sim_ev("hdr", mode, buf_len, prerotate);

	store = sim_alloc_guarded(buf_len, 32, 0xd7);
	/* both descriptors in one block, a chosen distance apart (whole KiB, or nothing special) */
	static const uint32_t spacings[] = { 1024, 2048, 64, 1000 };
	uint32_t spacing = spacings[sim_choose(4)];
	two_rings = mode != 0 && sim_choose(2);
	uint8_t *descs = sim_alloc_guarded(spacing + sizeof(ringbuf_t), 16, 0x7d);
	rb = (ringbuf_t *)descs;
	rb2 = (ringbuf_t *)(descs + spacing);
	store2 = sim_alloc_guarded(B_LEN, 32, 0xd7);
	b_put = 0;
	simrt_region_add(store, buf_len, SIMRT_SHARED, "ring-storage");
	simrt_region_add(rb, sizeof(*rb), SIMRT_SHARED, "ring-descriptor");
	simrt_region_add(store2, B_LEN, SIMRT_SHARED, "second-ring-storage");
	simrt_region_add(rb2, sizeof(*rb2), SIMRT_SHARED, "second-ring-descriptor");
	simrt_bounds(true);
	sim_budget(400000 + 40ull * prerotate + 40ull * prefill);
	uint32_t how = sim_choose(3);
	if (how == 0) {
		ringbuf_init(rb, store, buf_len);
	} else if (how == 1) {
		ringbuf_t v = RINGBUF_VAR_INIT(store, buf_len);
		memcpy(rb, &v, sizeof(v));
	} else {
		/* the static initialiser is a macro: its arguments may be expressions (the storage
		 * at an offset into a pool of words; the guard in front of it plays the pool) */
		uint32_t *pool = (uint32_t *)(store - 8);
		uint32_t la = buf_len - 1, lb = 1;
		ringbuf_t v = RINGBUF_VAR_INIT(pool + 2, la + lb);
		memcpy(rb, &v, sizeof(v));
		sim_probe(P_INIT_EXPRESSIONS);
	}
	ringbuf_init(rb2, store2, B_LEN);

	n_put_ok = n_put_inv_ok = n_get_ok = 0;
	put_in_flight = get_in_flight = false;
	pnext = cnext = 0;
	producer_done = false;
	keep_draining = spin_ok;

	/* move the indices to the chosen start position, sequentially */
	for (uint32_t i = 0; i < prerotate; i++) {
		pop_t o = { 0, (uint8_t)(i * 37 + 11) };
		do_put(&o);
		do_get(false);
		if (((i + 1) % buf_len) == 0)
			sim_probe(P_WRAPPED);
	}

	/* long-lived contents: bytes put now are consumed during and after the concurrent phase */
	for (uint32_t i = 0; i < prefill; i++) {
		pop_t o = { 0, (uint8_t)(i * 29 + 3) };
		do_put(&o);
	}
	for (uint32_t i = 0; i < npops; i++) {
		sim_seg();
		pops[i].kind = spin_ok && sim_chance(1, 4);
		pops[i].val = sim_choose(4) == 0 ? 128 + sim_choose(128) : sim_choose(256);
	}
	for (uint32_t i = 0; i < ncops; i++)
		cops[i] = sim_chance(1, 6);
	uint32_t put0 = n_put_ok;

	sim_seg();	/* the schedule */
	if (mode == 0) {
		sim_probe(P_MODE_THR);
		simrt_mode(SIMRT_THR);
		simrt_races(races);	/* the race detector decides C07 only; elsewhere the functional oracles must see the consequences */
		simrt_strategy(strat, sparam);
		if (strat == SIMRT_STRAT_STALL)
			sim_fault(F_STALL);
		simrt_spawn(producer, NULL);
		simrt_spawn(consumer, NULL);
		simrt_run_all();
		if (simrt_switches() > 2)
			sim_fault(F_PREEMPT);
	} else {
		sim_probe(mode == 1 ? P_MODE_IRQ_PROD : P_MODE_IRQ_CONS);
		simrt_mode(SIMRT_IRQ);
		simrt_irq_handler(irq_handler, 1);
		simrt_irq_plan(1 + sim_choose(24), 1 + sim_choose(sim_choose(2) ? 12 : 60));
		if (mode == 1)
			consumer(NULL);
		else
			producer(NULL);
		simrt_irq_mask(true);
		/* whatever the handler did not get to is done in the main context */
		if (mode == 1) {
			while (pnext < npops) {
				pop_t o = pops[pnext++];
				o.kind = 0;
				do_put(&o);
				do_get(false);
			}
		}
	}
	simrt_mode(SIMRT_SEQ);
	if ((n_put_ok - put0 + prerotate) >= buf_len)
		sim_probe(P_WRAPPED);

	/* quiescence: everything successfully put must come out, in order, then empty */
	while (n_get_ok < n_put_ok)
		do_get(false);
	int d = ringbuf_get(rb);
	if (d != -1 || !ringbuf_empty(rb))
		sim_fail(NULL, "FIFO:phantom", "after all %u bytes were delivered the ring still returned %d", n_put_ok, d);
	for (uint32_t i = 0; two_rings && i <= b_put; i++) {
		int b = ringbuf_get(rb2);
		int want = i < b_put ? (uint8_t)(i * 7 + 3) : -1;
		if (b != want)
			sim_fail(NULL, "FIFO:second_ring", "get number %u on the second ring returned %d, expected %d (%u bytes were put)", i, b, want, b_put);
	}
	sim_check_guards();
}

const sim_harness_t sim_harness = {
	.name = "h_ring",
	.flavour = "sim",
	.run = run,
	.fault_names = fault_names,
	.probe_names = probe_names,
	.min_ops = 4,
	.rule = "one case = one ring geometry (length 2-17, 64, 255, 256, 4096; indices pre-rotated to a "
		"tape-chosen start; one run in 600: 65535-131072 bytes, pre-filled to near capacity or near 2^16), one producer program and one consumer program, and one schedule: "
		"free-running threads under one of four strategies (random, PCT, k preemptions, stalls) "
		"or run-to-completion interrupts in either direction, preempting at every atomic "
		"operation and every access to ring storage; non-trivial = at least 4 calls and at least "
		"one preemption/interrupt/refusal; distinct = distinct hash of the invoke/return event "
		"sequence (i.e. distinct observable interleavings)",
	.real = "librfn/ringbuf.c, ringbuf.h (init, static initialiser, put, putchar, get, empty), compiled with TSan instrumentation",
	.stub = "threads and interrupt handlers are simulator contexts; no libtsan (own runtime)",
};

int main(int argc, char **argv)
{
	return sim_main(argc, argv);
}
